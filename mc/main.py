import argparse
import os
import sys
import traceback
import warnings


def main(argv=None):
    ap = argparse.ArgumentParser(prog="check")
    ap.add_argument("prop", nargs="?")
    ap.add_argument("--tier", choices=["quick", "thorough"], default=None)
    ap.add_argument("--replay", default=None)
    ap.add_argument("--jobs", type=int, default=None)
    ap.add_argument("--selftest", action="store_true")
    a = ap.parse_args(argv)
    warnings.simplefilter("ignore")
    tier = a.tier or os.environ.get("VERIF_TIER") or "quick"
    if tier not in ("quick", "thorough"):
        tier = "quick"
    try:
        seed = int(os.environ.get("VERIF_SEED", "0"))
    except ValueError:
        seed = 0
    try:
        if a.selftest:
            from . import selftest

            return selftest.main()
        if not a.prop:
            ap.error("property id required")
        pid = a.prop.upper()
        from . import core

        return core.run_check("mc.checks.%s" % pid.lower(), tier, seed, jobs=a.jobs, replay=a.replay)
    except SystemExit:
        raise
    except BaseException:
        traceback.print_exc()
        print("INTERNAL-ERROR in the verification machinery (exit 2)")
        return 2


if __name__ == "__main__":
    sys.exit(main())
