"""./check --selftest : binds the reference models to the maintainers' own examples (run by MANIFEST.setup_cmd).

Evaluates the reference models on literal inputs/expected outputs taken from the repository's tests and docs,
independently of the implementation; also checks that the snapshot mechanism imports mpilot from the scratch copy.
"""
import importlib
import sys


def main():
    from . import snapshot

    d = snapshot.take()
    import mpilot

    assert mpilot.__file__.startswith(d), mpilot.__file__
    failures = []
    n = 0
    for name in ("evalgraph", "eems", "grammar", "params", "sig"):
        try:
            mod = importlib.import_module("mc.ref." + name)
        except ImportError:
            continue
        st = getattr(mod, "selftest", None)
        if st:
            for label, ok in st():
                n += 1
                if not ok:
                    failures.append("%s: %s" % (name, label))
    for f in failures:
        print("SELFTEST-FAIL " + f)
    print("selftest: %d reference examples, %d failures" % (n, len(failures)))
    return 2 if failures else 0


if __name__ == "__main__":
    sys.exit(main())
