"""Verif-side library for C15/C12/C20: one command with a parameter of every kind (all optional); execute echoes the cleaned values."""
from mpilot import params
from mpilot.commands import Command


def _plain(v):
    if isinstance(v, Command):
        return ("result-of", v.result_name, _plain(v.result))
    if isinstance(v, (list, tuple)):
        return [_plain(x) for x in v]
    if isinstance(v, dict):
        return {k: _plain(x) for k, x in v.items()}
    return v


class Echo(Command):
    inputs = {
        "S": params.StringParameter(required=False),
        "N": params.NumberParameter(required=False),
        "B": params.BooleanParameter(required=False),
        "P": params.PathParameter(must_exist=False, required=False),
        "R": params.ResultParameter(required=False),
        "LS": params.ListParameter(params.StringParameter(), required=False),
        "LN": params.ListParameter(params.NumberParameter(), required=False),
        "LB": params.ListParameter(params.BooleanParameter(), required=False),
        "LR": params.ListParameter(params.ResultParameter(), required=False),
        "LL": params.ListParameter(params.ListParameter(params.NumberParameter()), required=False),
        "LLS": params.ListParameter(params.ListParameter(params.ListParameter(params.StringParameter())), required=False),
        "DT": params.DataTypeParameter(required=False),
        "L": params.ListParameter(required=False),  # a list whose items are taken as they are
    }
    output = params.Parameter()

    def execute(self, **kw):
        return {k: _plain(v) for k, v in kw.items() if k != "Metadata"}
