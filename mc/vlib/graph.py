"""Verif-side command library for C01/C14: one command class `Node` whose execute() logs itself and returns
(name, ((slot, result of everything referenced through that slot), ...)) in slot order."""
from mpilot import params
from mpilot.commands import Command

LOG = []  # ("enter"|"exit", result_name)
FED = []  # (consumer, producer, producer_finished_when_read, id(result object read))
DIRECT_SLOTS = ("D0", "D1", "D2", "D3", "D4")
SLOTS = DIRECT_SLOTS + ("L", "N")


def reset():
    del LOG[:]
    del FED[:]


def _val(consumer, v):
    if isinstance(v, (list, tuple)):
        return tuple(_val(consumer, x) for x in v)
    r = v.result
    FED.append((consumer, v.result_name, bool(v.is_finished), id(r)))
    return r


class Node(Command):
    inputs = dict(
        [(s, params.ResultParameter(required=False)) for s in DIRECT_SLOTS]
        + [
            ("L", params.ListParameter(params.ResultParameter(), required=False)),
            ("N", params.ListParameter(params.ListParameter(params.ResultParameter()), required=False)),
        ]
    )
    output = params.Parameter()

    def execute(self, **kw):
        LOG.append(("enter", self.result_name))
        parts = []
        for slot in SLOTS:
            if slot in kw:
                parts.append((slot, _val(self.result_name, kw[slot])))
        LOG.append(("exit", self.result_name))
        return (self.result_name, tuple(parts))


class Quiet(Node):
    """a side-effect-only command: reads its inputs like Node, declares no output and returns nothing (None)"""

    inputs = dict(Node.inputs)  # (declarations are per class, not inherited)
    output = None

    def execute(self, **kw):
        Node.execute(self, **kw)
        return None


class Idle(Node):
    """a command that does not read (all of) its inputs while it executes: a choose-one / optional-input command"""

    inputs = dict(Node.inputs)
    output = params.Parameter()

    def execute(self, **kw):
        LOG.append(("enter", self.result_name))
        LOG.append(("exit", self.result_name))
        return (self.result_name, "idle")


class Greedy(Node):
    """a command that USES UP the list it is given while it executes (takes the items off one by one), as a command working through a queue of
    inputs may: the arguments it is handed are its own to consume"""

    inputs = dict(Node.inputs)
    output = params.Parameter()

    def execute(self, **kw):
        out = Node.execute(self, **kw)
        for slot in ("L", "N"):
            if isinstance(kw.get(slot), list):
                del kw[slot][:]
        return out
