"""Verif-side producer commands: return a fresh array built from a key of the module-level TABLE."""
from mpilot import params
from mpilot.commands import Command

TABLE = {}  # key -> callable returning a new array


class ConstNF(Command):
    inputs = {"Key": params.StringParameter()}
    output = params.DataParameter()

    def execute(self, **kw):
        return TABLE[kw["Key"]]()


class ConstFZ(Command):
    is_fuzzy = True
    inputs = {"Key": params.StringParameter()}
    output = params.DataParameter()

    def execute(self, **kw):
        return TABLE[kw["Key"]]()


class NoOut(Command):
    """declares no output (like the pinned CSV EEMSWrite)"""

    inputs = {"Key": params.StringParameter(required=False)}

    def execute(self, **kw):
        return None
