"""Reference signature table of the built-in commands (DESIGN.md Appendix A), written from docs/user/lib-*.rst.

Parameter kinds: ("R", outkind, fz)  result reference: producer must have output kind outkind ("data"|"any") and
                                     fuzziness fz ("fz" must be fuzzy, "nf" must not be, "*" either)
                 ("L", kind)         list of kind
                 "Num" "Str" "Bool" "Path" "PathNew" "DType" "Tuple"
Every command additionally accepts Metadata?: Tuple.
`out` = (output kind "data"|"bool"|"none", is_fuzzy).
The typed-model generators (C02/C12/C16) use this table, never the live declarations.
"""


def R(kind="data", fz="*"):
    return ("R", kind, fz)


def L(x):
    return ("L", x)


def _c(lib, out, fuzzy, *params):
    return {"lib": lib, "out": (out, fuzzy), "params": list(params)}


NF, FZ = R("data", "nf"), R("data", "fz")
B, Fz = "basic", "fuzzy"

COMMANDS = {
    "Copy": _c(B, "data", False, ("InFieldName", R("data", "*"), True)),
    "AMinusB": _c(B, "data", False, ("A", NF, True), ("B", NF, True)),
    "ADividedByB": _c(B, "data", False, ("A", NF, True), ("B", NF, True)),
    "Sum": _c(B, "data", False, ("InFieldNames", L(NF), True)),
    "Multiply": _c(B, "data", False, ("InFieldNames", L(NF), True)),
    "Minimum": _c(B, "data", False, ("InFieldNames", L(NF), True)),
    "Maximum": _c(B, "data", False, ("InFieldNames", L(NF), True)),
    "Mean": _c(B, "data", False, ("InFieldNames", L(NF), True)),
    "WeightedSum": _c(B, "data", False, ("InFieldNames", L(NF), True), ("Weights", L("Num"), True)),
    "WeightedMean": _c(B, "data", False, ("InFieldNames", L(NF), True), ("Weights", L("Num"), True)),
    "Normalize": _c(B, "data", False, ("InFieldName", NF, True), ("StartVal", "Num", False), ("EndVal", "Num", False)),
    "NormalizeZScore": _c(B, "data", False, ("InFieldName", NF, True), ("TrueThresholdZScore", "Num", False),
                          ("FalseThresholdZScore", "Num", False), ("StartVal", "Num", False), ("EndVal", "Num", False)),
    "NormalizeCat": _c(B, "data", False, ("InFieldName", NF, True), ("RawValues", L("Num"), True),
                       ("NormalValues", L("Num"), True), ("DefaultNormalValue", "Num", True)),
    "NormalizeCurve": _c(B, "data", False, ("InFieldName", NF, True), ("RawValues", L("Num"), True), ("NormalValues", L("Num"), True)),
    "NormalizeMeanToMid": _c(B, "data", False, ("InFieldName", NF, True), ("IgnoreZeros", "Bool", True), ("NormalValues", L("Num"), True)),
    "NormalizeCurveZScore": _c(B, "data", False, ("InFieldName", NF, True), ("ZScoreValues", L("Num"), True), ("NormalValues", L("Num"), True)),
    "PrintVars": _c(B, "bool", False, ("InFieldNames", L(R("any", "*")), True), ("OutFileName", "PathNew", False)),
    "CvtToFuzzy": _c(Fz, "data", True, ("InFieldName", NF, True), ("TrueThreshold", "Num", False), ("FalseThreshold", "Num", False), ("Direction", "Str", False)),
    "CvtToFuzzyZScore": _c(Fz, "data", True, ("InFieldName", NF, True), ("TrueThresholdZScore", "Num", False), ("FalseThresholdZScore", "Num", False)),
    "CvtToFuzzyCat": _c(Fz, "data", True, ("InFieldName", NF, True), ("RawValues", L("Num"), True), ("FuzzyValues", L("Num"), True), ("DefaultFuzzyValue", "Num", True)),
    "CvtToFuzzyCurve": _c(Fz, "data", True, ("InFieldName", NF, True), ("RawValues", L("Num"), True), ("FuzzyValues", L("Num"), True)),
    "CvtToFuzzyMeanToMid": _c(Fz, "data", True, ("InFieldName", NF, True), ("IgnoreZeros", "Bool", True), ("FuzzyValues", L("Num"), True)),
    "CvtToFuzzyCurveZScore": _c(Fz, "data", True, ("InFieldName", NF, True), ("ZScoreValues", L("Num"), True), ("FuzzyValues", L("Num"), True)),
    "CvtToBinary": _c(Fz, "data", True, ("InFieldName", NF, True), ("Threshold", "Num", True), ("Direction", "Str", True)),
    "FuzzyUnion": _c(Fz, "data", True, ("InFieldNames", L(FZ), True)),
    "FuzzyOr": _c(Fz, "data", True, ("InFieldNames", L(FZ), True)),
    "FuzzyAnd": _c(Fz, "data", True, ("InFieldNames", L(FZ), True)),
    "FuzzyXOr": _c(Fz, "data", True, ("InFieldNames", L(FZ), True)),
    "FuzzyWeightedUnion": _c(Fz, "data", True, ("InFieldNames", L(FZ), True), ("Weights", L("Num"), True)),
    "FuzzySelectedUnion": _c(Fz, "data", True, ("InFieldNames", L(FZ), True), ("TruestOrFalsest", "Str", True), ("NumberToConsider", "Num", True)),
    "FuzzyNot": _c(Fz, "data", True, ("InFieldName", FZ, True)),
    "CvtFromFuzzy": _c(Fz, "data", False, ("InFieldName", FZ, True), ("TrueThreshold", "Num", True), ("FalseThreshold", "Num", True)),
}

CSV_IO = {
    "EEMSRead": _c("csv", "data", False, ("InFileName", "Path", True), ("InFieldName", "Str", True), ("MissingVal", "Num", False),
                   ("DataType", "DType", False), ("ReturnType", "DType", False), ("NewFieldName", "Str", False)),
    "EEMSWrite": _c("csv", "none", False, ("OutFileName", "PathNew", True), ("OutFieldNames", L(R("data", "*")), True)),
}
NETCDF_IO = {
    "EEMSRead": _c("netcdf", "data", False, ("InFileName", "Path", True), ("InFieldName", "Str", True), ("MissingValue", "Num", False),
                   ("DataType", "DType", False)),
    "EEMSWrite": _c("netcdf", "bool", False, ("OutFileName", "PathNew", True), ("OutFieldNames", L(R("data", "*")), True),
                    ("DimensionFileName", "Path", True), ("DimensionFieldName", "Str", True)),
}

MODULES = {"basic": "mpilot.libraries.eems.basic", "fuzzy": "mpilot.libraries.eems.fuzzy",
           "csv": "mpilot.libraries.eems.csv.io", "netcdf": "mpilot.libraries.eems.netcdf.io"}

DATA_COMMANDS = [c for c in COMMANDS if c != "PrintVars"]  # 31 data commands
FUZZY_PRODUCERS = [c for c in COMMANDS if COMMANDS[c]["out"][1]]  # 14


def table(libset="csv"):
    t = dict(COMMANDS)
    t.update(CSV_IO if libset == "csv" else NETCDF_IO)
    return t


def result_slots(cmd, libset="csv"):
    """[(param name, is_list, outkind, fz)] of the result-reference parameters of cmd"""
    out = []
    for name, kind, req in table(libset)[cmd]["params"]:
        if isinstance(kind, tuple) and kind[0] == "R":
            out.append((name, False, kind[1], kind[2]))
        elif isinstance(kind, tuple) and kind[0] == "L" and isinstance(kind[1], tuple) and kind[1][0] == "R":
            out.append((name, True, kind[1][1], kind[1][2]))
    return out


def input_fuzz(cmd):
    """'fz' | 'nf' | '*' : fuzziness demanded of the data inputs of a data command"""
    return result_slots(cmd)[0][3]


# frozen EEMS 2.0 name table (meaning of each EEMS 2.0 command in MPilot terms), independent of mpilot.utils.EEMS_COMMANDS
EEMS2 = {
    "READ": "EEMSRead", "CVTTOFUZZY": "CvtToFuzzy", "CVTTOFUZZYCURVE": "CvtToFuzzyCurve", "CVTTOFUZZYCAT": "CvtToFuzzyCat",
    "MEANTOMID": "CvtToFuzzyMeanToMid", "COPYFIELD": "Copy", "NOT": "FuzzyNot", "OR": "FuzzyOr", "AND": "FuzzyAnd",
    "ORNEG": "FuzzyAnd", "XOR": "FuzzyXOr", "SUM": "Sum", "MULT": "Multiply", "DIVIDE": "ADividedByB", "MIN": "Minimum",
    "MAX": "Maximum", "MEAN": "Mean", "UNION": "FuzzyUnion", "DIF": "AMinusB", "SELECTEDUNION": "FuzzySelectedUnion",
    "WTDUNION": "FuzzyWeightedUnion", "WTDMEAN": "WeightedMean", "WTDSUM": "WeightedSum",
    "SCORERANGEBENEFIT": None, "SCORERANGECOST": None,  # no MPilot equivalent is documented
}


def selftest():
    return [("36 built-in commands incl. I/O", len(COMMANDS) + 2 + 2 == 36), ("14 fuzzy producers", len(FUZZY_PRODUCERS) == 14),
            ("31 data commands", len(DATA_COMMANDS) == 31), ("25 EEMS2 names", len(EEMS2) == 25)]
