"""Reference semantics of the EEMS data commands (DESIGN.md Appendix B).

Boring on purpose: cell-wise definitions over lists of cells, a cell being a fractions.Fraction (exact) or
MISSING (None).  Whole-array statistics range over the valid cells only.  Operations that need a square root
fall back to float and flag the result `approx`.

apply(cmd, inputs, params) -> ("ok", cells, approx) | ("err", "ErrorClassName") | ("unspec", why)
    inputs: list of equal-length lists of cells (one per input array, flattened in C order)
    params: dict of cleaned parameter values (numbers as int/float/Fraction, strings, lists)
"unspec" marks cases the property statements do not settle (value not judged).
"""
import math
from fractions import Fraction

MISSING = None
F = Fraction


def fr(x):
    if x is None:
        return None
    if isinstance(x, Fraction):
        return x
    if isinstance(x, float):
        if x != x or x in (float("inf"), float("-inf")):
            raise ValueError("non-finite")
        return Fraction(x)  # exact value of the double
    return Fraction(x)


def clamp(y, lo=F(-1), hi=F(1)):
    if y is None:
        return None
    if y > hi:
        return hi
    if y < lo:
        return lo
    return y


def _cellwise(inputs, fn):
    out = []
    for cells in zip(*inputs):
        if any(c is None for c in cells):
            out.append(None)
        else:
            out.append(fn(cells))
    return out


def _valid(cells):
    return [c for c in cells if c is not None]


def _mean(xs):
    return sum(xs, F(0)) / len(xs)


def _std(xs):
    """population standard deviation; exact if the variance is a perfect rational square, else float"""
    m = _mean(xs)
    var = sum(((x - m) ** 2 for x in xs), F(0)) / len(xs)
    if var == 0:
        return F(0), True
    n, d = var.numerator, var.denominator
    rn, rd = math.isqrt(n), math.isqrt(d)
    if rn * rn == n and rd * rd == d:
        return F(rn, rd), True
    return math.sqrt(var), False


def _curve(x, pairs):
    """pairs sorted by raw; x <= r0 -> n0 ; r[i-1] < x <= r[i] -> linear ; x > r_last -> n_last"""
    if x <= pairs[0][0]:
        return pairs[0][1]
    for i in range(1, len(pairs)):
        pr, pn = pairs[i - 1]
        r, nn = pairs[i]
        if pr < x <= r:
            return pn + (x - pr) * (nn - pn) / (r - pr)
    return pairs[-1][1]


def _num(v):
    return fr(v)


N_ARY = ("Sum", "Multiply", "Minimum", "Maximum", "Mean", "WeightedSum", "WeightedMean",
         "FuzzyUnion", "FuzzyOr", "FuzzyAnd", "FuzzyXOr", "FuzzyWeightedUnion", "FuzzySelectedUnion")
FUZZY_OUT = ("CvtToFuzzy", "CvtToFuzzyZScore", "CvtToFuzzyCat", "CvtToFuzzyCurve", "CvtToFuzzyMeanToMid",
             "CvtToFuzzyCurveZScore", "CvtToBinary", "FuzzyUnion", "FuzzyWeightedUnion", "FuzzySelectedUnion",
             "FuzzyOr", "FuzzyAnd", "FuzzyXOr", "FuzzyNot")
NORMAL_OF = {"CvtToFuzzyZScore": "NormalizeZScore", "CvtToFuzzyCat": "NormalizeCat", "CvtToFuzzyCurve": "NormalizeCurve",
             "CvtToFuzzyMeanToMid": "NormalizeMeanToMid", "CvtToFuzzyCurveZScore": "NormalizeCurveZScore"}


def apply(cmd, inputs, params):
    try:
        inputs = [[fr(c) for c in col] for col in inputs]  # float cells (from an approximate upstream step) become their exact value
    except ValueError:
        return ("unspec", "non-finite input")
    return _apply(cmd, inputs, params)


def _apply(cmd, inputs, params):
    p = params
    n = len(inputs)
    approx = False
    if cmd in N_ARY:
        if n == 0:
            return ("err", "EmptyInputs")
    if cmd in ("WeightedSum", "WeightedMean", "FuzzyWeightedUnion"):
        w = [_num(x) for x in p["Weights"]]
        if len(w) != n:
            return ("err", "MismatchedWeights")
    if cmd == "Copy":
        return ("ok", list(inputs[0]), False)
    if cmd == "AMinusB":
        return ("ok", _cellwise(inputs, lambda c: c[0] - c[1]), False)
    if cmd == "ADividedByB":
        return ("ok", _cellwise(inputs, lambda c: None if c[1] == 0 else c[0] / c[1]), False)
    if cmd == "Sum":
        return ("ok", _cellwise(inputs, lambda c: sum(c, F(0))), False)
    if cmd == "Multiply":
        def prod(c):
            r = F(1)
            for x in c:
                r *= x
            return r
        return ("ok", _cellwise(inputs, prod), False)
    if cmd == "Minimum":
        return ("ok", _cellwise(inputs, min), False)
    if cmd == "Maximum":
        return ("ok", _cellwise(inputs, max), False)
    if cmd == "Mean":
        return ("ok", _cellwise(inputs, lambda c: sum(c, F(0)) / len(c)), False)
    if cmd == "WeightedSum":
        return ("ok", _cellwise(inputs, lambda c: sum((wi * x for wi, x in zip(w, c)), F(0))), False)
    if cmd == "WeightedMean":
        sw = sum(w, F(0))
        if sw == 0:
            return ("ok", [None] * len(inputs[0]), False)
        return ("ok", _cellwise(inputs, lambda c: sum((wi * x for wi, x in zip(w, c)), F(0)) / sw), False)

    # ---- fuzzy logic
    if cmd == "FuzzyNot":
        return ("ok", [clamp(None if c is None else -c) for c in inputs[0]], False)
    if cmd == "FuzzyOr":
        return ("ok", [clamp(x) for x in _cellwise(inputs, max)], False)
    if cmd == "FuzzyAnd":
        return ("ok", [clamp(x) for x in _cellwise(inputs, min)], False)
    if cmd == "FuzzyUnion":
        return ("ok", [clamp(x) for x in _cellwise(inputs, lambda c: sum(c, F(0)) / len(c))], False)
    if cmd == "FuzzyWeightedUnion":
        sw = sum(w, F(0))
        if sw == 0:
            return ("unspec", "zero weight sum")
        return ("ok", [clamp(x) for x in _cellwise(inputs, lambda c: sum((wi * x for wi, x in zip(w, c)), F(0)) / sw)], False)
    if cmd == "FuzzySelectedUnion":
        k = p["NumberToConsider"]
        tf = p["TruestOrFalsest"]
        if isinstance(k, float) and k != int(k):
            return ("unspec", "fractional NumberToConsider")
        k = int(k)
        if k > n:
            return ("err", "InvalidNumberToConsider")
        if tf not in ("Truest", "Falsest"):
            return ("err", "InvalidTruestOrFalsest")
        if k <= 0:
            return ("unspec", "NumberToConsider <= 0")

        def sel(c):
            s = sorted(c)
            pick = s[-k:] if tf == "Truest" else s[:k]
            return sum(pick, F(0)) / k
        return ("ok", [clamp(x) for x in _cellwise(inputs, sel)], False)
    if cmd == "FuzzyXOr":
        if n < 2:
            return ("unspec", "XOr needs two truest values")

        def xor(c):
            s = sorted(c)
            t1, t2 = s[-1], s[-2]
            if t1 <= -1:
                return F(-1)
            return t1 - (t1 - t2) * (t2 + 1) / (t1 + 1)
        return ("ok", [clamp(x) for x in _cellwise(inputs, xor)], False)

    # ---- conversions
    x = inputs[0]
    valid = _valid(x)
    if cmd == "CvtToFuzzy":
        d = p.get("Direction")
        if d is not None and d != "" and d not in ("LowToHigh", "HighToLow"):
            return ("err", "InvalidDirection")
        if ("TrueThreshold" not in p or "FalseThreshold" not in p) and not valid:
            return ("unspec", "defaults from an all-missing array")
        ft = _num(p["FalseThreshold"]) if "FalseThreshold" in p else (max(valid) if d == "HighToLow" else min(valid))
        tt = _num(p["TrueThreshold"]) if "TrueThreshold" in p else (min(valid) if d == "HighToLow" else max(valid))
        if tt == ft:
            return ("err", "InvalidThresholds")
        return ("ok", [None if c is None else clamp(1 - 2 * (c - tt) / (ft - tt)) for c in x], False)
    if cmd == "CvtFromFuzzy":
        tt, ft = _num(p["TrueThreshold"]), _num(p["FalseThreshold"])
        if tt == ft:
            return ("err", "InvalidThresholds")
        return ("ok", [None if c is None else tt + (1 - c) * (ft - tt) / 2 for c in x], False)
    if cmd == "CvtToBinary":
        d = p["Direction"]
        if d not in ("LowToHigh", "HighToLow"):
            return ("err", "InvalidDirection")
        th = _num(p["Threshold"])
        lo, hi = (F(0), F(1)) if d == "LowToHigh" else (F(1), F(0))
        return ("ok", [None if c is None else (lo if c < th else hi) for c in x], False)
    if cmd in NORMAL_OF:
        q = dict(p)
        if "FuzzyValues" in q:
            q["NormalValues"] = q.pop("FuzzyValues")
        if "DefaultFuzzyValue" in q:
            q["DefaultNormalValue"] = q.pop("DefaultFuzzyValue")
        if cmd == "CvtToFuzzyZScore":
            q.setdefault("TrueThresholdZScore", 1)
            q.setdefault("FalseThresholdZScore", -1)
            q["StartVal"], q["EndVal"] = -1, 1
        r = _apply(NORMAL_OF[cmd], inputs, q)
        if r[0] != "ok":
            return r
        return ("ok", [clamp(c) if not isinstance(c, float) else max(-1.0, min(1.0, c)) for c in r[1]], r[2])
    if cmd == "Normalize":
        start, end = _num(p.get("StartVal", 0)), _num(p.get("EndVal", 1))
        if not valid:
            return ("unspec", "all missing")
        lo, hi = min(valid), max(valid)
        if lo == hi:
            return ("degenerate", "max == min")
        return ("ok", [None if c is None else start + (c - lo) * (end - start) / (hi - lo) for c in x], False)
    if cmd == "NormalizeZScore":
        if "TrueThresholdZScore" not in p or "FalseThresholdZScore" not in p:
            return ("unspec", "default z-score thresholds (code and docs disagree)")
        start, end = _num(p.get("StartVal", 0)), _num(p.get("EndVal", 1))
        if not start < end:
            return ("unspec", "StartVal >= EndVal")
        if not valid:
            return ("unspec", "all missing")
        T, Fz = _num(p["TrueThresholdZScore"]), _num(p["FalseThresholdZScore"])
        mu = _mean(valid)
        sd, exact = _std(valid)
        if sd == 0 or T == Fz:
            return ("degenerate", "zero variance or equal thresholds")
        if not exact:
            mu, T, Fz, start_, end_ = float(mu), float(T), float(Fz), float(start), float(end)
            x1, x2 = mu + sd * T, mu + sd * Fz
            out = []
            for c in x:
                if c is None:
                    out.append(None)
                else:
                    y = (float(c) - x1) * (start_ - end_) / (x2 - x1) + end_
                    out.append(max(start_, min(end_, y)))
            return ("ok", out, True)
        x1, x2 = mu + sd * T, mu + sd * Fz
        return ("ok", [None if c is None else clamp((c - x1) * (start - end) / (x2 - x1) + end, start, end) for c in x], False)
    if cmd == "NormalizeCat":
        raw = [_num(v) for v in p["RawValues"]]
        nv = [_num(v) for v in p["NormalValues"]]
        dv = _num(p["DefaultNormalValue"])
        if len(raw) != len(nv):
            return ("err", "MixedArrayLengths")
        if len(set(raw)) != len(raw):
            return ("err", "DuplicateRawValues")
        table = dict(zip(raw, nv))
        return ("ok", [None if c is None else table.get(c, dv) for c in x], False)
    if cmd == "NormalizeCurve":
        raw = [_num(v) for v in p["RawValues"]]
        nv = [_num(v) for v in p["NormalValues"]]
        if len(raw) != len(nv):
            return ("err", "MixedArrayLengths")
        if len(set(raw)) != len(raw):
            return ("err", "DuplicateRawValues")
        if not raw:
            return ("unspec", "empty curve")
        pairs = sorted(zip(raw, nv))
        return ("ok", [None if c is None else _curve(c, pairs) for c in x], False)
    if cmd == "NormalizeMeanToMid":
        nv = [_num(v) for v in p["NormalValues"]]
        if len(nv) != 5:
            return ("unspec", "MeanToMid needs five values")
        if not valid:
            return ("unspec", "all missing")
        lo, hi = min(valid), max(valid)
        S = [c for c in valid if c != 0] if p["IgnoreZeros"] else list(valid)
        if not S:
            return ("degenerate", "no cells after ignoring zeros")
        m = _mean(S)
        below = [s for s in S if s <= m]
        above = [s for s in S if s > m]
        if not above or not below:
            return ("degenerate", "empty partition")
        raw = [lo, _mean(below), m, _mean(above), hi]
        nv = list(nv)
        if raw[-1] == raw[-2]:
            del raw[-2]
            del nv[-2]
        if raw[0] == raw[1]:
            del raw[1]
            del nv[1]
        if len(set(raw)) != len(raw):
            return ("err", "DuplicateRawValues")
        pairs = sorted(zip(raw, nv))
        return ("ok", [None if c is None else _curve(c, pairs) for c in x], False)
    if cmd == "NormalizeCurveZScore":
        z = [_num(v) for v in p["ZScoreValues"]]
        nv = [_num(v) for v in p["NormalValues"]]
        if len(z) != len(nv):
            return ("err", "MixedArrayLengths")
        if not z:
            return ("unspec", "empty curve")
        if not valid:
            return ("unspec", "all missing")
        if len(set(z)) != len(z):
            return ("unspec", "duplicate z-scores")
        mu = _mean(valid)
        sd, exact = _std(valid)
        if sd == 0:
            return ("degenerate", "zero variance")
        if exact:
            pairs = sorted((mu + zi * sd, ni) for zi, ni in zip(z, nv))
            return ("ok", [None if c is None else _curve(c, pairs) for c in x], False)
        pairs = sorted((float(mu) + float(zi) * sd, float(ni)) for zi, ni in zip(z, nv))
        out = []
        unstable = []
        for c in x:
            if c is None:
                out.append(None)
            else:
                out.append(_curve(float(c), pairs))
        return ("ok", out, True)
    raise KeyError(cmd)


# -------------------------------------------------------------------------------------------------
# binding to the maintainers' own examples (tests/eems/test_*.py, copied as data)


def selftest():
    def cells(xs):
        return [None if v is None else fr(v) for v in xs]

    def close(got, want, tol=0.006):
        return len(got) == len(want) and all(
            (g is None and w is None) or (g is not None and w is not None and abs(float(g) - float(w)) <= tol)
            for g, w in zip(got, want))

    ar10 = cells(range(10))
    ex = []
    r = apply("CvtToFuzzy", [ar10], {})
    ex.append(("CvtToFuzzy defaults (test_convert_to_fuzzy)", close(r[1], [-1.00, -0.78, -0.56, -0.33, -0.11, 0.11, 0.33, 0.56, 0.78, 1.00])))
    r = apply("CvtToFuzzy", [ar10], {"TrueThreshold": 2, "FalseThreshold": 0})
    ex.append(("CvtToFuzzy thresholds", close(r[1], [-1, 0, 1, 1, 1, 1, 1, 1, 1, 1], 0)))
    r = apply("CvtToFuzzyZScore", [ar10], {"TrueThresholdZScore": 1, "FalseThresholdZScore": -1})
    ex.append(("CvtToFuzzyZScore", close(r[1], [-1.0, -1.0, -0.87, -0.52, -0.17, 0.17, 0.52, 0.87, 1.0, 1.0])))
    r = apply("CvtToFuzzyCat", [cells([1, 1, 5, 4, 4, 8, 8, 9])], {"RawValues": [1, 4, 5, 8], "FuzzyValues": [-1, -0.5, 0.2, 0.9], "DefaultFuzzyValue": 0})
    ex.append(("CvtToFuzzyCat", close(r[1], [-1, -1, 0.2, -0.5, -0.5, 0.9, 0.9, 0], 1e-12)))
    r = apply("CvtToFuzzyCurve", [cells(range(10))], {"RawValues": [0, 5, 9], "FuzzyValues": [-1, 0, 1]})
    ex.append(("CvtToFuzzyCurve", close(r[1], [-1, -0.8, -0.6, -0.4, -0.2, 0, 0.25, 0.5, 0.75, 1], 1e-12)))
    r = apply("CvtToBinary", [ar10], {"Threshold": 5, "Direction": "LowToHigh"})
    ex.append(("CvtToBinary LowToHigh", close(r[1], [0, 0, 0, 0, 0, 1, 1, 1, 1, 1], 0)))
    a = cells([-1, -0.5, 0, 0.5, 1])
    b = cells([1, 0.5, 0, -0.5, -1])
    ex.append(("FuzzyUnion", close(apply("FuzzyUnion", [a, b], {})[1], [0, 0, 0, 0, 0], 0)))
    ex.append(("FuzzyOr", close(apply("FuzzyOr", [a, b], {})[1], [1, 0.5, 0, 0.5, 1], 0)))
    ex.append(("FuzzyAnd", close(apply("FuzzyAnd", [a, b], {})[1], [-1, -0.5, 0, -0.5, -1], 0)))
    ex.append(("FuzzyNot", close(apply("FuzzyNot", [a], {})[1], [1, 0.5, 0, -0.5, -1], 0)))
    ex.append(("FuzzyWeightedUnion", close(apply("FuzzyWeightedUnion", [a, b], {"Weights": [1, 0.5]})[1],
                                           [(-1 + 0.5) / 1.5, (-0.5 + 0.25) / 1.5, 0, (0.5 - 0.25) / 1.5, (1 - 0.5) / 1.5], 1e-12)))
    ex.append(("FuzzySelectedUnion truest 1 = Or", apply("FuzzySelectedUnion", [a, b], {"TruestOrFalsest": "Truest", "NumberToConsider": 1})[1]
               == apply("FuzzyOr", [a, b], {})[1]))
    # XOr documented formula: truest - (truest - 2nd) * (2nd + 1) / (truest + 1)
    ex.append(("FuzzyXOr formula", apply("FuzzyXOr", [cells([0.5]), cells([0.25])], {})[1] == [F(1, 2) - F(1, 4) * F(5, 4) / F(3, 2)]))
    ex.append(("FuzzyXOr -1 singularity", apply("FuzzyXOr", [cells([-1]), cells([-1])], {})[1] == [F(-1)]))
    ex.append(("CvtFromFuzzy", close(apply("CvtFromFuzzy", [a], {"TrueThreshold": 10, "FalseThreshold": 0})[1], [0, 2.5, 5, 7.5, 10], 0)))
    ex.append(("Sum", apply("Sum", [cells([1, 2]), cells([3, None])], {})[1] == [F(4), None]))
    ex.append(("ADividedByB zero", apply("ADividedByB", [cells([1, 2]), cells([0, 4])], {})[1] == [None, F(1, 2)]))
    ex.append(("WeightedMean", apply("WeightedMean", [cells([1, 2]), cells([3, 4])], {"Weights": [1, 3]})[1] == [F(10, 4), F(14, 4)]))
    ex.append(("Normalize", apply("Normalize", [cells([0, 5, 10])], {})[1] == [F(0), F(1, 2), F(1)]))
    ex.append(("NormalizeCurve flat ends", apply("NormalizeCurve", [cells([-5, 0, 2, 4, 9])], {"RawValues": [4, 0], "NormalValues": [1, 0]})[1]
               == [F(0), F(0), F(1, 2), F(1), F(1)]))
    r = apply("NormalizeMeanToMid", [cells([1, 2, 3, 4, 10])], {"IgnoreZeros": False, "NormalValues": [0, 0.25, 0.5, 0.75, 1]})
    # lo=1 lm=2 (1,2,3 <= 4) m=4 hm=10?? -> (10) ; raw = [1,2,4,10,10] -> drop 4th
    ex.append(("NormalizeMeanToMid", r[0] == "ok" and r[1][0] == F(0) and r[1][-1] == F(1) and r[1][3] == F(1, 2)))
    return ex
