"""Abstract syntax of MPilot command files, a renderer with explicit layout decision points, and the expected parse tree
(DESIGN.md Appendix C).  Used by C10, C11, C15, C16.

AST
    program  = [command]
    command  = (result_name | None (EEMS 2.0 form), command_name, [(arg_name, value)])
    value    = ("int", literal) | ("dec", literal) | ("q", text) | ("bare", text)
             | ("list", [value]) | ("tuple", [(key_kind "q"|"bare", key_text, value("q"|"bare"|"int"|"dec"))])

Rendering = concatenation of ITEMS.  An item is a list of alternative texts (index 0 = default) plus a meta tag; a LAYOUT is a
dict {item index: alternative index}.  The number of non-default choices is the number of layout deviations.
Expected tree (what Parser().parse must deliver), with the true 1-based start line of every node:
    [(result_name, command_name, line, [(arg_name, line, node)])]
    node = ("list", line, [node]) | ("dict", line, {key: (typename, value, line)}) | (typename, value, line)
"""
import re

ESC = {"\\": "\\\\", "\n": "\\n", "\t": "\\t"}


def quote(text, q='"', escape_other=False, raw_newline=False):
    out = []
    for ch in text:
        if ch == "\n" and raw_newline:
            out.append(ch)
        elif ch == "\r" and raw_newline == "crlf":
            out.append(ch)  # a raw CR LF pair inside the quotes (a multi-line value in a file with Windows line ends)
        elif ch in ESC:
            out.append(ESC[ch])
        elif ch == q or (escape_other and ch in "\"'"):
            out.append("\\" + ch)
        else:
            out.append(ch)
    return q + "".join(out) + q


def quote_hex(text, upper, q='"'):
    """the quoted rendering that spells every non-ASCII character as a \\xhh / \\uhhhh / \\Uhhhhhhhh escape, digits in lower or UPPER case"""
    out = []
    for ch in text:
        o = ord(ch)
        if o < 128:
            out.append(quote(ch, q)[1:-1])
            continue
        digits = ("%02x" % o) if o < 0x100 else ("%04x" % o) if o < 0x10000 else ("%08x" % o)
        out.append("\\" + ("x" if o < 0x100 else "u" if o < 0x10000 else "U") + (digits.upper() if upper else digits))
    return q + "".join(out) + q


BARE_OK = re.compile(r"^[^\#\:\,\=\(\)\[\]\"\'\r\n\t]+$")


def value_of(v):
    """python value the parser must deliver for a scalar AST value"""
    k = v[0]
    if k == "int":
        return int(v[1])
    if k == "dec":
        return float(v[1])
    return v[1]


class Item(object):
    __slots__ = ("alts", "meta")

    def __init__(self, alts, meta=None):
        self.alts = alts
        self.meta = meta


def _gap(default, alts, meta="gap"):
    seen = [default]
    for a in alts:
        if a not in seen:
            seen.append(a)
    return Item(seen, meta)


SP_ALTS = ["", " ", "  ", "\t"]
NL_ALTS = ["\n", "\n    ", "  # trailing (comment) = [x], \"q\"\n  ", "  # don't count this ( or this [\n  ", "  # 5\" pipe ) ]\n  "]
COMMENT = "# comment with delimiters ( ) [ ] = , : \" '"


def items_of(program, style="spaced"):
    """list of Items for the program.  meta of token items: ("cmd", ci) command-name token, ("res", ci), ("arg", ci, ai),
    ("val", path) first token of a value, ("key", path) tuple key."""
    sp = " " if style == "spaced" else ""
    items = []
    add = items.append
    add(_gap("", ["\n", COMMENT + "\n", "  ", "\n\n", "\r\n" if False else "\n \n"], "lead"))
    for ci, (res, name, args) in enumerate(program):
        if ci:
            add(_gap("\n", ["\n\n", "\n" + COMMENT + "\n", " # trailing comment, with = ( [\n", "\n\n\n", "\n  \t\n", "\n#\n", "\n    "], "between"))
        if res is not None:
            add(Item([res], ("res", ci)))
            add(_gap(sp, SP_ALTS, "sp"))
            add(Item(["="], "eq"))
            add(_gap(sp, SP_ALTS, "sp"))
        add(Item([name], ("cmd", ci)))
        add(_gap("", [" ", "\t"], "sp"))
        add(Item(["("], "lparen"))
        add(_gap("", [" "] + NL_ALTS, "nl"))
        for ai, (an, val) in enumerate(args):
            if ai:
                add(Item([","], "comma"))
                add(_gap(" ", ["", "  "] + NL_ALTS, "nl"))
            add(Item([an], ("arg", ci, ai)))
            add(_gap(sp, SP_ALTS, "sp"))
            add(Item(["="], "eq"))
            add(_gap(sp, SP_ALTS + ["\n  ", "  # the value is on the next line\n    "], "sp"))
            _value_items(val, items, (ci, ai), sp)
            add(_gap("", [" ", "\t"], "sp-after-value"))
        if args:
            add(Item(["", ","], "trailing-comma"))
            add(_gap("", [" ", "\n", "\n  "], "nl"))
        add(Item([")"], "rparen"))
    add(_gap("", ["\n", " ", "\n\n", " # end", "\n" + COMMENT, "\t\n"], "tail"))
    return items


def _scalar_item(v, path, role="val"):
    k = v[0]
    if k in ("int", "dec"):
        return Item([v[1]], (role, path))
    if k == "q":
        alts = [quote(v[1], '"'), quote(v[1], "'"), quote(v[1], '"', True)]
        if BARE_OK.match(v[1]) and v[1].strip() == v[1] and bare_safe(v[1]):
            alts.append(v[1])
        if any(ord(ch) > 127 for ch in v[1]):
            alts += [quote_hex(v[1], False), quote_hex(v[1], True), quote_hex(v[1], True, "'")]  # hexadecimal escapes, digits in either case
        if "\n" in v[1]:
            alts.append(quote(v[1], '"', raw_newline=True))  # raw newline inside the quotes
        if "\r\n" in v[1] and "\r" not in v[1].replace("\r\n", ""):
            alts.append(quote(v[1], '"', raw_newline="crlf"))
        return Item(_uniq(alts), (role, path))
    if k == "bare":
        return Item(_uniq([v[1], quote(v[1], '"'), quote(v[1], "'")]), (role, path))
    raise ValueError(v)


def _uniq(xs):
    out = []
    for x in xs:
        if x not in out:
            out.append(x)
    return out


NUMLIKE = re.compile(r"^[\-\+]?(\d+\.?\d*|\.\d+)([eE][\+\-]?\d+)?$")


def bare_safe(s):
    """can s be written without quotes and still mean the same string (conservative)"""
    if not s or s != s.strip() or NUMLIKE.match(s) or "  " in s:
        return False
    # a trailing number token (e.g. "abc 5", "a-5") has no production: keep such strings quoted
    if re.search(r"(^|[\s])[\-\+]?(\d+\.?\d*|\.\d+)([eE][\+\-]?\d+)?$", s):
        return False
    if re.search(r"[\-\+]\.?\d", s) and not re.match(r"^[^\s\-\+]*[^\s\d\-\+\.][\-\+]", s):
        return False
    return bool(BARE_OK.match(s))


def _value_items(val, items, path, sp):
    add = items.append
    k = val[0]
    if k == "list":
        add(Item(["["], ("val", path)))
        add(_gap("", [" "] + NL_ALTS[:3], "nl"))
        for ei, e in enumerate(val[1]):
            if ei:
                add(Item([","], "comma"))
                add(_gap(" ", ["", "  "] + NL_ALTS[:3], "nl"))  # (incl. a comment after the comma: the next element starts a line that follows a comment)
            _value_items(e, items, path + (ei,), sp)
            add(_gap("", [" "], "sp-after-value"))
        if val[1]:
            add(Item(["", ","], "trailing-comma"))
            add(_gap("", [" ", "\n", "\n  "], "nl"))
        add(Item(["]"], "rbrack"))
    elif k == "tuple":
        add(Item(["["], ("val", path)))
        add(_gap("", [" "] + NL_ALTS[:2], "nl"))
        for ei, (kk, key, v) in enumerate(val[1]):
            if ei:
                add(Item([","], "comma"))
                add(_gap(" ", ["", "  "] + NL_ALTS[:3], "nl"))
            add(_scalar_item((kk, key), path + (key,), "key"))
            add(_gap("", [" "], "sp"))
            add(Item([":"], "colon"))
            add(_gap(sp, ["", " ", "  ", "  # the value is on the next line\n    "], "sp"))
            add(_scalar_item(v, path + (key, "v"), "tval"))
            add(_gap("", [" "], "sp-after-value"))
        add(Item(["", ","], "trailing-comma"))
        add(_gap("", [" ", "\n", "\n  "], "nl"))
        add(Item(["]"], "rbrack"))
    else:
        add(_scalar_item(val, path))


def render(items, layout=None, crlf=False):
    """-> (text, starts) where starts[i] = (offset, line) of item i (1-based line of its first character)"""
    layout = layout or {}
    parts = []
    starts = []
    off = 0
    line = 1
    for i, it in enumerate(items):
        t = it.alts[layout.get(i, 0)]
        if crlf and "\n" in t and not (isinstance(it.meta, tuple) and it.meta[0] in ("val", "key", "tval")):
            t = t.replace("\n", "\r\n")
        starts.append((off, line))
        parts.append(t)
        off += len(t)
        line += t.count("\n")
    return "".join(parts), starts


def expected(program, items, starts):
    """expected parse tree with true lines, read off the rendering"""
    pos = {}
    for i, it in enumerate(items):
        if isinstance(it.meta, tuple):
            pos[it.meta] = starts[i][1]

    def node(val, path):
        k = val[0]
        line = pos[("val", path)]
        if k == "list":
            return ("list", line, [node(e, path + (ei,)) for ei, e in enumerate(val[1])])
        if k == "tuple":
            d = {}
            for kk, key, v in val[1]:
                pv = value_of(v)
                d[key] = (type(pv).__name__, pv, pos[("key", path + (key,))])
            return ("dict", line, d)
        pv = value_of(val)
        return (type(pv).__name__, pv, line)

    out = []
    for ci, (res, name, args) in enumerate(program):
        out.append((res, name, pos[("cmd", ci)], [(an, pos[("arg", ci, ai)], node(v, (ci, ai))) for ai, (an, v) in enumerate(args)]))
    return out


def tree_of(program_node):
    """the same structure read off a ProgramNode returned by mpilot's parser"""

    def node(expr):
        v = expr.value
        if isinstance(v, list):
            return ("list", expr.lineno, [node(e) for e in v])
        if isinstance(v, dict):
            return ("dict", expr.lineno, {k: (type(e.value).__name__, e.value, e.lineno) for k, e in v.items()})
        return (type(v).__name__, v, expr.lineno)

    return [(c.result_name, c.command, c.lineno, [(a.name, a.lineno, node(a.value)) for a in c.arguments]) for c in program_node.commands]


def strip_lines(tree):
    def node(n):
        if n[0] == "list":
            return ("list", [node(e) for e in n[2]])
        if n[0] == "dict":
            return ("dict", {k: (t, v) for k, (t, v, _) in n[2].items()})
        return (n[0], n[1])

    return [(r, c, [(an, node(v)) for an, _, v in args]) for r, c, _, args in tree]


def lines_only(tree):
    def node(n):
        if n[0] == "list":
            return ("list", n[1], [node(e) for e in n[2]])
        if n[0] == "dict":
            return ("dict", n[1], {k: ln for k, (_, _, ln) in n[2].items()})
        return n[2]

    return [(ln, [(aln, node(v)) for _, aln, v in args]) for _, _, ln, args in tree]


def deviations(items, k, only=None):
    """all layouts with 1..k non-default choices (k>=1), in increasing number of deviations; `only` filters item metas"""
    idx = [i for i, it in enumerate(items) if len(it.alts) > 1 and (only is None or only(it))]

    def rec(start, left, cur):
        if cur:
            yield dict(cur)
        if left == 0:
            return
        for j in range(start, len(idx)):
            i = idx[j]
            for a in range(1, len(items[i].alts)):
                cur.append((i, a))
                for x in rec(j + 1, left - 1, cur):
                    yield x
                cur.pop()

    for depth in range(1, k + 1):
        for lay in rec(0, depth, []):
            if len(lay) == depth:
                yield lay


def count_points(items):
    return sum(1 for it in items if len(it.alts) > 1), sum(len(it.alts) - 1 for it in items)


# ---------------------------------------------------------------------------------------------------------------
# value alphabets

INT_FORMS = ["0", "5", "-3", "+7", "12", "007", "-0"]
DEC_FORMS = ["5.4", "5.", ".5", "-.5", "+1.5", "1.5e3", ".13E10", "2.5e-3", "0.0", "-0.0", "1.50"]
BARE_STRINGS = ["Foo", "foo_bar9", "/Path/To/123.txt", "C:\\path\\to\\thing", "A+/-B", "This is a string.", "two words", "5abc", "007x",
                "1.50abc", "http://example.org/a.b", "caf\u00e9", "a.b.c", "x y z", "..\\rel\\p.csv", "data/file name.csv", "True", "a1:b2",
                "True Color", "is False", "False/positives.csv", "x True y", "Truecolor", "TrueThreshold value", "\U0001f600 smile", "\u4e2d\u6587 name",
                "Gr\u00f6\u00dfe 2", "A\u00f1o 2020", "\u00fcber 1.5", "Z\u00fcrich-2",
                "Note: see appendix", "width : height", "lat :lon"]  # blanks next to a colon belong to the text  # non-ASCII first letter, number at the end: one unquoted string
QUOTED_SYMBOLS = ["a", " ", '"', "'", "\\", "#", ",", "]", "=", "\u00e9", "\n"]
QUOTED_NAMED = ["", "C:\\temp\\new.csv", "A+, \n", "He said \"hi\" to 'them'", "tab\there", "x" * 40, "[1, 2]", "key: value", "(a = b)", "\u20ac 5",
                "ends with backslash\\", "# not a comment", "  padded  ", "5", "1.5", "True",
                "\U0001f600", "score \U0001f600\U0001d11e", "\u4e2d\u6587", "True Color", "False",
                "\ufeffelev", "a\ufeffb", "\u200bzw", "nb\u00a0sp", "Fire risk\r\nnorth unit", "a\r\n\r\nb", "A\u0301rea", "\u212b ngstr\u00f6m"]


def quoted_strings(maxlen):
    out = []
    import itertools

    for n in range(1, maxlen + 1):
        for t in itertools.product(QUOTED_SYMBOLS, repeat=n):
            out.append("".join(t))
    return out


def selftest():
    prog = [("A", "Cmd", [("P", ("int", "5")), ("Q", ("list", [("q", "x y"), ("dec", ".5")]))]), (None, "READ", [("T", ("tuple", [("bare", "k", ("q", "v"))]))])]
    its = items_of(prog)
    text, starts = render(its)
    ok1 = text == 'A = Cmd(P = 5, Q = ["x y", .5])\nREAD(T = [k: "v"])'
    exp = expected(prog, its, starts)
    ok2 = exp[0][2] == 1 and exp[1][2] == 2 and exp[0][3][1][2] == ("list", 1, [("str", "x y", 1), ("float", 0.5, 1)])
    lay = {i: 1 for i, it in enumerate(its) if it.meta == "between"}
    text2, starts2 = render(its, lay)
    ok3 = expected(prog, its, starts2)[1][2] == 3
    return [("canonical rendering", ok1), ("expected tree", ok2), ("blank line shifts second command to line 3", ok3),
            ("quote() escapes", quote('a"b\\c\n') == '"a\\"b\\\\c\\n"'), ("bare_safe", bare_safe("This is a string.") and not bare_safe("abc 5") and not bare_safe("1.5"))]
