"""Three-valued expectation table for parameter cleaning (DESIGN.md Appendix D).

expect(kind, raw, ctx) -> ("be", value) | ("be-type", python type) | ("fail", (error class names...)) | ("unspec", why)
kind: "Str" "Num" "Bool" ("Path", must_exist) ("Result", outkind, fz) ("List", kind) "Tuple" "Data" ("DType", table)
raw values are described by small tagged tuples so that cases are JSON-able:
    ("int", 5) ("float", 2.5) ("bool", True) ("str", "abc") ("list", [raw...]) ("dict", {k: v}) ("none",)
    ("cmd", name)  -> a command object of the context program   ("type", "float"|"int"|"str")   ("np", "float64", 1.5)
ctx: {"wd": None | absolute path | relative path, "exists": set of existing absolute paths,
      "commands": {name: {"fuzzy": bool, "kind": "data"|"other"|"none", "finished": bool}}}
"""
import os

PROGRAM_ERRORS = ("ProgramError",)  # any subclass of mpilot.exceptions.ProgramError is accepted where "fail" lists this


def _num_from_str(s):
    try:
        return int(s)
    except ValueError:
        try:
            return float(s)
        except ValueError:
            return None


def expect(kind, raw, ctx):
    tag = raw[0]
    if kind == "Str":
        if tag == "str":
            return ("be", raw[1])
        if tag in ("int", "float"):
            return ("be", str(raw[1]))
        return ("unspec", "non-text given for a string")
    if kind == "Num":
        if tag == "int" or tag == "float":
            return ("be", raw[1])
        if tag == "str":
            s = raw[1]
            if s.strip() != s or "_" in s or "e" in s.lower() or s.lower() in ("inf", "-inf", "nan", "infinity", "+inf") or s.startswith("+"):
                return ("unspec", "exotic numeric text")
            v = _num_from_str(s)
            if v is None:
                return ("fail", ("ParameterNotValid",))
            return ("be", v)
        if tag in ("list", "dict", "none", "cmd", "type"):
            return ("fail", ("ParameterNotValid",))
        if tag == "np":
            return ("be-num", raw[2])  # a real number of another number type keeps its VALUE (decimals stay decimals)
        return ("unspec", "bool for a number")
    if kind == "Bool":
        if tag == "bool":
            return ("be", raw[1])
        if tag == "int":
            return ("be", bool(raw[1])) if raw[1] in (0, 1) else ("unspec", "other integers")
        if tag == "str":
            s = raw[1]
            if s.lower() == "true":
                return ("be", True)
            if s.lower() == "false":
                return ("be", False)
            if s in ("0", "1"):
                return ("be", s == "1")
            if _num_from_str(s) is not None and isinstance(_num_from_str(s), int):
                return ("unspec", "other integer strings")
            return ("fail", ("ParameterNotValid",))
        if tag in ("list", "dict", "cmd", "none", "type"):
            return ("fail", ("ParameterNotValid",))
        return ("unspec", "float / numpy scalar for a boolean")
    if isinstance(kind, tuple) and kind[0] == "Path":
        must_exist = kind[1]
        if tag == "str":
            s = raw[1]
            wd = ctx.get("wd")
            if s == "":
                return ("unspec", "empty path")
            if os.path.isabs(s):
                full = s
            else:
                if wd is None:
                    return ("fail", ("InvalidRelativePath",))
                # (a relative working directory gives a relative result: joined all the same; only idempotence cannot be asked then)
                full = os.path.join(wd, s)
            # (a relative result is looked up in the file system: what it denotes depends on the directory the process runs in)
            present = full in ctx.get("exists", ()) if os.path.isabs(full) else os.path.exists(full)
            if must_exist and not present:
                return ("fail", ("PathDoesNotExist",))
            return ("be", full)
        if tag in ("list", "dict", "cmd", "none", "type"):
            return ("fail", PROGRAM_ERRORS)
        return ("unspec", "number / bool given for a path")
    if isinstance(kind, tuple) and kind[0] == "Result":
        _, outkind, fz = kind
        cmds = ctx.get("commands", {})
        if tag == "str":
            if raw[1] not in cmds:
                return ("fail", ("ResultDoesNotExist",))
            name = raw[1]
        elif tag == "cmd":
            name = raw[1]
        elif tag in ("int", "float", "bool", "list", "dict", "none", "type", "np"):
            return ("fail", ("ParameterNotValid",) if tag != "list" and tag != "dict" else PROGRAM_ERRORS)
        else:
            return ("unspec", "?")
        c = cmds[name]
        if fz == "fz" and not c["fuzzy"]:
            return ("fail", ("ResultNotFuzzy",))
        if fz == "nf" and c["fuzzy"]:
            return ("fail", ("ResultIsFuzzy",))
        if outkind == "data":
            if c["kind"] == "none":
                return ("unspec", "producer without a declared output")
            if c["kind"] != "data":
                return ("fail", ("ResultTypeNotValid", "ParameterNotValid"))
        return ("be-cmd", name)
    if isinstance(kind, tuple) and kind[0] == "List":
        if tag == "list":
            out = []
            for item in raw[1]:
                e = expect(kind[1], item, ctx)
                if e[0] == "fail":
                    return ("fail", e[1] if e[1] != PROGRAM_ERRORS else PROGRAM_ERRORS)
                if e[0] == "unspec":
                    return e
                out.append(e)
            return ("be-list", out)
        if tag == "tuple":
            return ("unspec", "tuple object for a list")
        return ("fail", ("ParameterNotValid",))
    if kind == "Tuple":
        if tag == "dict":
            if all(isinstance(k, str) and isinstance(v, str) for k, v in raw[1].items()):
                return ("be", dict(raw[1]))
            return ("be", {str(k): str(v) for k, v in raw[1].items()})
        if tag == "list" and raw[1] == []:
            return ("be", {})
        return ("fail", ("ParameterNotValid",))
    if kind == "Data":
        if tag == "ndarray":
            return ("be-same",)
        return ("fail", ("ParameterNotValid",))
    if isinstance(kind, tuple) and kind[0] == "DType":
        table = kind[1]  # {name: type name}
        if tag == "str":
            if raw[1] in table:
                return ("be-typename", table[raw[1]])
            return ("fail", ("ParameterNotValid",))
        if tag == "type":
            if raw[1] in table.values():
                return ("be-typename", raw[1])
            return ("fail", ("ParameterNotValid",))
        return ("fail", ("ParameterNotValid",))
    raise KeyError(kind)


def selftest():
    ctx = {"wd": "/w", "exists": {"/w/a.csv"}, "commands": {"x": {"fuzzy": True, "kind": "data", "finished": True}}}
    return [
        ("integers stay integers", expect("Num", ("str", "5"), ctx) == ("be", 5) and isinstance(expect("Num", ("str", "5"), ctx)[1], int)),
        ("decimals stay decimals", expect("Num", ("str", "2.5"), ctx) == ("be", 2.5)),
        ("true/false/0/1", expect("Bool", ("str", "FALSE"), ctx) == ("be", False) and expect("Bool", ("str", "1"), ctx) == ("be", True)),
        ("relative paths resolved", expect(("Path", True), ("str", "a.csv"), ctx) == ("be", "/w/a.csv")),
        ("missing path", expect(("Path", True), ("str", "b.csv"), ctx)[0] == "fail"),
        ("fuzziness", expect(("Result", "data", "nf"), ("str", "x"), ctx) == ("fail", ("ResultIsFuzzy",))),
        ("list itemwise", expect(("List", "Num"), ("list", [("str", "1"), ("float", 2.5)]), ctx) == ("be-list", [("be", 1), ("be", 2.5)])),
    ]
