"""Reference model of dependency graphs for C01/C14: plain recursion, nothing clever.

A graph is (n, edges) with edges a tuple of (consumer, producer, kind), kind in "dln"
(direct slot / list L / nested list N).  Node i has the result name NAMES[i]; the textual order of the
program is the label order 0..n-1, names are assigned by a fixed non-monotone permutation so that
textual order, name order and hash order all differ.
"""
import itertools

NAMINGS = (("d", "a", "c", "b", "e"), ("zz", "B", "a1", "_x", "Q"), ("ndvi", "NDVI", "Ndvi", "x", "X"))  # (third: names that differ in case only)


def slots_of(n, edges, i, names):
    """Arguments of node i: list of (slot, raw value) where raw values are result names / lists of them."""
    # a kind is a string over d/l/n: "d" one direct slot, "dd" two direct slots naming the same result, "dl" one direct slot and one list
    # entry, "ll" twice in the list, ...  (multi-references of one producer by one consumer)
    direct = [names[p] for (c, p, k) in edges if c == i for ch in k if ch == "d"]
    lst = [names[p] for (c, p, k) in edges if c == i for ch in k if ch == "l"]
    nst = [names[p] for (c, p, k) in edges if c == i for ch in k if ch == "n"]
    out = [("D%d" % j, x) for j, x in enumerate(direct)]
    if lst:
        out.append(("L", lst))
    if nst:
        out.append(("N", [nst[:1]] + ([nst[1:]] if nst[1:] else [])))
    return out


def has_cycle(n, edges):
    adj = {i: [p for (c, p, k) in edges if c == i] for i in range(n)}
    color = [0] * n

    def dfs(u):
        color[u] = 1
        for v in adj[u]:
            if color[v] == 1 or (color[v] == 0 and dfs(v)):
                return True
        color[u] = 2
        return False

    return any(color[i] == 0 and dfs(i) for i in range(n))


def reaches_cycle(n, edges):
    """set of nodes from which a cycle is reachable (including nodes on cycles)."""
    adj = {i: [p for (c, p, k) in edges if c == i] for i in range(n)}
    on = set()
    for i in range(n):
        # i is on a cycle iff i reachable from one of its successors
        seen, stack = set(), list(adj[i])
        while stack:
            u = stack.pop()
            if u in seen:
                continue
            seen.add(u)
            stack += adj[u]
        if i in seen:
            on.add(i)
    out = set()
    for i in range(n):
        seen, stack = set(), [i]
        while stack:
            u = stack.pop()
            if u in seen:
                continue
            seen.add(u)
            stack += adj[u]
        if seen & on:
            out.add(i)
    return out


def closure(n, edges, i):
    """i and everything it references, transitively."""
    adj = {j: [p for (c, p, k) in edges if c == j] for j in range(n)}
    seen, stack = set(), [i]
    while stack:
        u = stack.pop()
        if u in seen:
            continue
        seen.add(u)
        stack += adj[u]
    return seen


def value(n, edges, i, names, memo=None):
    """Reference value of node i of an acyclic graph (what Node.execute must return)."""
    memo = {} if memo is None else memo
    if i in memo:
        return memo[i]
    idx = {nm: j for j, nm in enumerate(names)}

    def val(raw):
        if isinstance(raw, list):
            return tuple(val(x) for x in raw)
        return value(n, edges, idx[raw], names, memo)

    memo[i] = (names[i], tuple((slot, val(raw)) for slot, raw in slots_of(n, edges, i, names)))
    return memo[i]


def render(n, edges, names):
    """MPilot source text of the program, commands in label order."""

    def r(raw):
        if isinstance(raw, list):
            return "[" + ", ".join(r(x) for x in raw) + "]"
        return raw

    lines = []
    for i in range(n):
        args = ", ".join("%s = %s" % (s, r(raw)) for s, raw in slots_of(n, edges, i, names))
        lines.append("%s = Node(%s)" % (names[i], args))
    return "\n".join(lines)


def all_pairs(n, loops=False):
    return [(c, p) for c in range(n) for p in range(n) if loops or c != p]


def dags(n):
    """all labelled DAGs on n nodes as tuples of (consumer, producer) pairs, fewest edges first."""
    pairs = all_pairs(n)
    out = []
    for k in range(len(pairs) + 1):
        for es in itertools.combinations(pairs, k):
            if not has_cycle(n, [(c, p, "d") for c, p in es]):
                out.append(es)
    return out


def cyclic_digraphs(n, max_edges=None):
    pairs = all_pairs(n, loops=True)
    top = len(pairs) if max_edges is None else min(max_edges, len(pairs))
    for k in range(1, top + 1):
        for es in itertools.combinations(pairs, k):
            if has_cycle(n, [(c, p, "d") for c, p in es]):
                yield es


def kind_assignments(es, kinds="dln"):
    for ks in itertools.product(kinds, repeat=len(es)):
        yield tuple((c, p, k) for (c, p), k in zip(es, ks))


def selftest():
    names = NAMINGS[0]
    diamond = ((1, 0, "d"), (2, 0, "l"), (3, 1, "d"), (3, 2, "n"))
    v = value(4, diamond, 3, names)
    return [
        ("543 labelled DAGs on 4 nodes", len(dags(4)) == 543), ("25 on 3 nodes", len(dags(3)) == 25),
        ("diamond value", v[0] == "b" and [slot for slot, _ in v[1]] == ["D0", "N"] and v[1][0][1] == ("a", (("D0", ("d", ())),))),
        ("self loop is a cycle", has_cycle(1, ((0, 0, "d"),))), ("chain is not", not has_cycle(3, ((1, 0, "d"), (2, 1, "l")))),
        ("tail reaches cycle", reaches_cycle(3, ((0, 1, "d"), (1, 0, "d"), (2, 0, "l"))) == {0, 1, 2}),
        ("separate component does not", reaches_cycle(3, ((0, 1, "d"), (1, 0, "d"))) == {0, 1}),
        ("multi-reference slots", slots_of(2, ((1, 0, "ddl"),), 1, names) == [("D0", "d"), ("D1", "d"), ("L", ["d"])]),
        ("render", render(2, ((1, 0, "dl"),), names) == "d = Node()\na = Node(D0 = d, L = [d])"),
    ]
