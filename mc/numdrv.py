"""Shared driver for the numeric family (C03-C09): array construction from cell lists, running a real command's
execute(), comparing the returned masked array with reference cells."""
import importlib
import itertools
from fractions import Fraction

import numpy

from .ref import eems as REF
from .ref import sig as SIG

F = Fraction
_CLS = {}


def cls_of(cmd):
    if cmd not in _CLS:
        mod = importlib.import_module(SIG.MODULES[SIG.COMMANDS[cmd]["lib"]])
        _CLS[cmd] = getattr(mod, cmd)
    return _CLS[cmd]


def shapes_of(size, maxrank=3):
    """every ordered factorisation of size into <= maxrank axes"""
    out = []

    def rec(rem, pref):
        if len(pref) >= 1 and rem == 1:
            out.append(tuple(pref))
        if len(pref) == maxrank:
            return
        for d in range(1, rem + 1):
            if rem % d == 0:
                if d == 1 and rem == 1 and pref:
                    # trailing 1-axes
                    pass
                rec(rem // d, pref + [d])

    # simple explicit generation instead: all tuples of length 1..maxrank with product == size
    out = []
    for r in range(1, maxrank + 1):
        for t in itertools.product(range(1, size + 1), repeat=r):
            prod = 1
            for d in t:
                prod *= d
            if prod == size:
                out.append(t)
    return out


def relayout(arr, layout):
    """same logical array, different memory layout: 'F' Fortran-ordered copy, 'T' transposed view of a C array, 'S' strided view into a
    larger buffer (every second element along the last axis).  Data and mask get the same layout."""
    if layout == "C" or arr.ndim < 1:
        return arr
    def lay(x):
        x = numpy.asarray(x)
        if layout == "F":
            return numpy.asfortranarray(x)
        if layout == "T":
            return numpy.ascontiguousarray(x.T).T
        if layout == "S":
            big = numpy.zeros(x.shape[:-1] + (2 * x.shape[-1],), dtype=x.dtype)
            big[..., ::2] = x
            return big[..., ::2]
        raise ValueError(layout)
    m = numpy.ma.getmask(arr)
    out = numpy.ma.MaskedArray(lay(arr.data), mask=numpy.ma.nomask if m is numpy.ma.nomask else lay(m))
    return out


def mk_array(cells, shape=None, dtype="float", maskform="auto", payload=0):
    """cells: list of Fraction|int|float|None (None = missing).  maskform for arrays without missing cells:
    'nomask' | 'false' (explicit all-False mask).  payload: number stored beneath missing cells."""
    np_dtype = {"float": numpy.float64, "int": numpy.int64, "float32": numpy.float32, "int32": numpy.int32, "uint": numpy.uint64, "uint8": numpy.uint8, "uint16": numpy.uint16}[dtype]
    vals = []
    for c in cells:
        if c is None:
            v = payload
        else:
            v = c
        if dtype.startswith("int") or dtype.startswith("uint"):
            vals.append(int(v) if v == v else 0)
        else:
            vals.append(float(v))
    data = numpy.array(vals, dtype=np_dtype)
    miss = [c is None for c in cells]
    if any(miss):
        arr = numpy.ma.MaskedArray(data, mask=numpy.array(miss, dtype=bool))
    elif maskform == "false":
        arr = numpy.ma.MaskedArray(data, mask=numpy.zeros(len(cells), dtype=bool))
    elif maskform in ("ndarray", "auto+ndarray"):
        arr = data  # a plain numpy.ndarray: what a plug-in command or an operation on complete data may deliver
    else:
        arr = numpy.ma.MaskedArray(data)
    if shape is not None:
        arr = arr.reshape(shape)
    return arr


# result names of the producers by position: name order, positional order and hash order all differ
PRODUCER_NAMES = ("d_in", "a_in", "c_in", "b_in", "e_in", "B_in")


def producer(name, arr, fuzzy=False):
    from mpilot.commands import Command

    c = Command(name)
    if fuzzy:
        c.is_fuzzy = True
    c.is_finished = True
    c._result = arr
    return c


def kwargs_for(cmd, prods, params):
    slots = SIG.result_slots(cmd)
    kw = dict(params)
    if len(slots) == 2:  # A, B
        kw[slots[0][0]] = prods[0]
        kw[slots[1][0]] = prods[1]
    elif slots[0][1]:
        kw[slots[0][0]] = list(prods)
    else:
        kw[slots[0][0]] = prods[0]
    return kw


def arity(cmd):
    slots = SIG.result_slots(cmd)
    if len(slots) == 2:
        return "2"
    return "n" if slots[0][1] else "1"


def execute(cmd, arrays, params, fuzzy_inputs=None, reverse_keywords=False):
    """Run the real command.  Returns ("ok", result) | ("err", exception).  reverse_keywords: pass the keyword arguments in the
    opposite order (B before A, Weights before InFieldNames): the order in which named arguments are written means nothing."""
    if fuzzy_inputs is None:
        fuzzy_inputs = SIG.input_fuzz(cmd) == "fz"
    prods = [producer(PRODUCER_NAMES[i % len(PRODUCER_NAMES)] + ("" if i < len(PRODUCER_NAMES) else str(i)), a, fuzzy_inputs) for i, a in enumerate(arrays)]
    inst = cls_of(cmd)("res")
    try:
        with numpy.errstate(all="ignore"):
            kw = kwargs_for(cmd, prods, params)
            if reverse_keywords:
                kw = dict(reversed(list(kw.items())))
            return ("ok", inst.execute(**kw))
    except Exception as exc:  # classified by the caller
        return ("err", exc)


def run_via_command(cmd, arrays, params, fuzzy_inputs=None, repeat_first=False):
    """like execute() but through Command.run (validate_params + error wrapping).  repeat_first: the first producer is LISTED TWICE (the same
    command object at two places of the input list)."""
    from mpilot.arguments import Argument

    if fuzzy_inputs is None:
        fuzzy_inputs = SIG.input_fuzz(cmd) == "fz"
    prods = [producer(PRODUCER_NAMES[i % len(PRODUCER_NAMES)] + ("" if i < len(PRODUCER_NAMES) else str(i)), a, fuzzy_inputs) for i, a in enumerate(arrays)]
    kw = kwargs_for(cmd, ([prods[0]] + prods) if repeat_first else prods, params)
    inst = cls_of(cmd)("res", [Argument(k, v) for k, v in kw.items()])
    try:
        with numpy.errstate(all="ignore"):
            return ("ok", inst.result)
    except Exception as exc:
        return ("err", exc)


def result_cells(res):
    """(shape, [value or None per cell in C order], is_masked_array)"""
    is_ma = isinstance(res, numpy.ma.MaskedArray)
    arr = numpy.asarray(res.data if is_ma else res)
    mask = numpy.ma.getmaskarray(res) if is_ma else numpy.zeros(arr.shape, dtype=bool)
    flat = arr.ravel().tolist()
    mflat = mask.ravel().tolist()
    return arr.shape, [None if m else v for v, m in zip(flat, mflat)], is_ma


def cell_equal(got, want, approx, tol=1e-9):
    """got: python number (from tolist) or None; want: Fraction|float|None"""
    if got is None or want is None:
        return got is None and want is None
    if isinstance(got, float) and got != got:
        return False
    if not approx and not isinstance(want, float):
        try:
            if Fraction(got) == want:
                return True
        except (OverflowError, ValueError):
            return False
        # exact reference but the implementation may round (division by 3 etc.)
        w = float(want)
        return abs(float(got) - w) <= tol * max(1.0, abs(w))
    w = float(want)
    return abs(float(got) - w) <= tol * max(1.0, abs(w))


def compare(res, ref_cells, approx, shape, tol=1e-9):
    """-> list of (kind, message).  kinds: not-array, shape, mask-dropped, missing-lost, missing-extra, wrong-value"""
    issues = []
    if not isinstance(res, numpy.ndarray):
        return [("not-array", "result is %r, not an array" % type(res).__name__)]
    rshape, cells, is_ma = result_cells(res)
    if tuple(rshape) != tuple(shape):
        return [("shape", "result shape %r, inputs %r" % (tuple(rshape), tuple(shape)))]
    for i, (g, w) in enumerate(zip(cells, ref_cells)):
        if w is None and g is not None:
            issues.append(("mask-dropped" if not is_ma else "missing-lost", "cell %d should be missing, got %r" % (i, g)))
        elif w is not None and g is None:
            issues.append(("missing-extra", "cell %d should be %s, got missing" % (i, w)))
        elif not cell_equal(g, w, approx, tol):
            issues.append(("wrong-value", "cell %d is %r, reference %s" % (i, g, float(w) if w is not None else None)))
        if len(issues) >= 3:
            break
    return issues


def error_name(exc):
    return type(exc).__name__


def is_mpilot_error(exc):
    from mpilot.exceptions import MPilotError

    return isinstance(exc, MPilotError)


SPECIFIC_ERRORS = ("MismatchedWeights", "InvalidNumberToConsider", "InvalidTruestOrFalsest", "EmptyInputs", "MixedArrayShapes",
                   "MixedArrayLengths", "DuplicateRawValues", "InvalidDirection", "InvalidThresholds")


def cell_inputs(cols, msg):
    try:
        i = int(msg.split()[1])
        return [str(a[i]) for a in cols]
    except Exception:
        return "?"


def judge(pid, op, params, cols, res, shape, viols, tag, counters, V, ref=None, degenerate_ok=True, tol=1e-9):
    """Compare one execution (res from execute()) with the reference.  Returns an outcome label.
    counters: dict with 'judged', 'unspecified' (cells).  Degenerate statistics (reference says "degenerate") only require an
    MPilot error or an all-missing result."""
    ref = ref or REF.apply(op, cols, params)
    ncell = len(cols[0]) if cols else 0
    if ref[0] == "unspec":
        counters["unspecified"] += max(ncell, 1)
        return "unspec"
    if ref[0] == "degenerate":
        counters["judged"] += 1
        if res[0] == "err":
            if is_mpilot_error(res[1]):
                return "degenerate:error"
            viols.append(V("%s:%s:degenerate-raw-exception:%s" % (pid, op, error_name(res[1])),
                           "%s %r on degenerate data (%s) raised %r" % (op, params, ref[1], res[1]), **tag))
            return "bad"
        _, cells, _ = result_cells(res[1])
        if all(c is None for c in cells):
            return "degenerate:all-missing"
        if any(isinstance(c, float) and (c != c or c in (float("inf"), float("-inf"))) for c in cells):
            viols.append(V("%s:%s:degenerate-nonfinite" % (pid, op), "%s %r on degenerate data (%s) returned non-finite values %r" % (op, params, ref[1], cells[:4]), **tag))
            return "bad"
        return "degenerate:values"
    if ref[0] == "err":
        counters["judged"] += 1
        if res[0] == "err" and error_name(res[1]) == ref[1]:
            return "err:" + ref[1]
        if res[0] == "err" and error_name(res[1]) in SPECIFIC_ERRORS:
            return "err:" + error_name(res[1])  # two conditions at once: either specific error is fine
        got = ("%s(%s)" % (error_name(res[1]), res[1])) if res[0] == "err" else "a result"
        viols.append(V("%s:%s:expected-%s" % (pid, op, ref[1]), "%s %r: expected %s, got %s" % (op, params, ref[1], got[:200]), **tag))
        return "bad"
    counters["judged"] += ncell
    if res[0] == "err":
        viols.append(V("%s:%s:raised:%s" % (pid, op, error_name(res[1])), "%s %r raised %s: %s" % (op, params, error_name(res[1]), str(res[1])[:160].replace("\n", " ")), **tag))
        return "raised"
    bad = False
    for kind, msg in compare(res[1], ref[1], ref[2], shape, tol):
        bad = True
        viols.append(V("%s:%s:%s" % (pid, op, kind), "%s n=%d %r: %s (inputs at that cell: %s)" % (op, len(cols), params, msg, cell_inputs(cols, msg)), **tag))
    return "bad" if bad else "ok"


def presets_small(cmd, n=1):
    """1-3 representative parameter presets per data command (DESIGN.md section 3, "Command presets")."""
    if cmd in ("WeightedSum", "WeightedMean", "FuzzyWeightedUnion"):
        # (a weight of 0 switches an input's VALUE off, never its missing cells, its shape or its place in the graph)
        return [{"Weights": [1, 0.5, 2, 3, 1][:n]}, {"Weights": [2] * n}] + ([{"Weights": [1, 0, 2, 0, 1][:n]}, {"Weights": [0, 1, 0.5, 1, 0][:n]}] if n >= 2 else [])
    if cmd == "FuzzySelectedUnion":
        return [{"TruestOrFalsest": "Truest", "NumberToConsider": 1}, {"TruestOrFalsest": "Falsest", "NumberToConsider": max(1, n - 1)},
                {"TruestOrFalsest": "Truest", "NumberToConsider": n}]
    if cmd == "Normalize":
        return [{}, {"StartVal": -1, "EndVal": 1}]
    if cmd == "NormalizeZScore":
        return [{"TrueThresholdZScore": 1, "FalseThresholdZScore": -1}, {"TrueThresholdZScore": -0.5, "FalseThresholdZScore": 2, "StartVal": 0, "EndVal": 10}]
    if cmd == "CvtToFuzzyZScore":
        return [{}, {"TrueThresholdZScore": -0.5, "FalseThresholdZScore": 2}]
    if cmd in ("NormalizeCat", "CvtToFuzzyCat"):
        vn, dn = ("FuzzyValues", "DefaultFuzzyValue") if cmd.startswith("Cvt") else ("NormalValues", "DefaultNormalValue")
        return [{"RawValues": [0, 2, -9999], vn: [0.5, -0.5, 1], dn: 0.25}, {"RawValues": [-1, 1], vn: [1, -1], dn: -0.75}]
    if cmd in ("NormalizeCurve", "CvtToFuzzyCurve"):
        vn = "FuzzyValues" if cmd.startswith("Cvt") else "NormalValues"
        return [{"RawValues": [2, -1, 0], vn: [1, -1, 0.5]}, {"RawValues": [0], vn: [0.25]}]
    if cmd in ("NormalizeMeanToMid", "CvtToFuzzyMeanToMid"):
        vn = "FuzzyValues" if cmd.startswith("Cvt") else "NormalValues"
        return [{"IgnoreZeros": False, vn: [-1, -0.5, 0, 0.5, 1]}, {"IgnoreZeros": True, vn: [1, 0.5, 0, -0.5, -1]}]
    if cmd in ("NormalizeCurveZScore", "CvtToFuzzyCurveZScore"):
        vn = "FuzzyValues" if cmd.startswith("Cvt") else "NormalValues"
        return [{"ZScoreValues": [1, -1, 0], vn: [1, -1, 0.25]}, {"ZScoreValues": [0.5], vn: [0.5]}]
    if cmd == "CvtToFuzzy":
        return [{}, {"TrueThreshold": 2, "FalseThreshold": -1}, {"Direction": "HighToLow"}]
    if cmd == "CvtFromFuzzy":
        return [{"TrueThreshold": 10, "FalseThreshold": 0}, {"TrueThreshold": -1, "FalseThreshold": 3}]
    if cmd == "CvtToBinary":
        return [{"Threshold": 0.5, "Direction": "LowToHigh"}, {"Threshold": 0, "Direction": "HighToLow"}]
    return [{}]


def arities(cmd, maxn=3):
    a = arity(cmd)
    return (1,) if a == "1" else (2,) if a == "2" else tuple(range(1, maxn + 1))
