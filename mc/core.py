"""Explorer core: sharded exhaustive enumeration, BFS helper, merging, evidence, violations.

A check module (mc/checks/cNN.py) provides
    ID, LEVEL ("model_checking" | "exploration" | "fault_enumeration"), RULE (str), ASSUMPTIONS (list)
    cases(tier)      -> iterator of JSON-able cases in a fixed simplest-first order
    run(case)        -> dict with optional keys
                          evals        executions of real code behind this case      (default 1)
                          nontrivial   distinct non-trivial sub-cases                (default 1)
                          judged / unspecified / unstable   oracle verdict counts
                          outcomes     {label: count}   observed behaviours
                          viols        [{"key","what","detail"}]
                          states / transitions          (BFS checks)
                          extra        {name: int}      summed into coverage
    optional: prepare(tier) run once in the parent before workers fork; CHUNK (cases per task);
              BOUND(tier) -> str describing the completed bound.
Nothing is sampled: `cases` is enumerated to the end unless the wall-clock cap VERIF_CAP_S is hit, in
which case the evidence says exhaustive=false and how many cases were completed.
"""
import collections
import hashlib
import importlib
import itertools
import json
import multiprocessing
import os
import sys
import time
import traceback

ROOT = os.path.dirname(os.path.dirname(os.path.abspath(__file__)))
EVIDENCE_DIR = os.environ.get("VERIF_EVIDENCE_DIR") or os.path.join(ROOT, "evidence")  # overridden only by mutant/audit runs
VIOLATION_DIR = os.environ.get("VERIF_VIOLATION_DIR") or os.path.join(ROOT, "violations")
KNOWN_FILE = os.path.join(ROOT, "known_findings.json")


def V(key, what, **detail):
    return {"key": key, "what": what, "detail": detail}


def jsonable(x):
    """Best-effort conversion of a case/detail into plain JSON values (deterministic)."""
    import fractions

    if isinstance(x, (str, int, bool)) or x is None:
        return x
    if isinstance(x, float):
        if x != x or x in (float("inf"), float("-inf")):
            return repr(x)
        return x
    if isinstance(x, fractions.Fraction):
        return str(x)
    if isinstance(x, dict):
        return {str(k): jsonable(v) for k, v in x.items()}
    if isinstance(x, (list, tuple)):
        return [jsonable(v) for v in x]
    if isinstance(x, (set, frozenset)):
        return sorted((jsonable(v) for v in x), key=repr)
    try:
        import numpy

        if isinstance(x, numpy.generic):
            return jsonable(x.item())
        if isinstance(x, numpy.ndarray):
            return {"ndarray": repr(x)}
    except Exception:
        pass
    return repr(x)


def stable_hash(obj):
    return hashlib.blake2b(repr(obj).encode("utf-8", "backslashreplace"), digest_size=8).digest()


# --------------------------------------------------------------------------------------------
# BFS over histories with the real transition function


def bfs(initial_events, enabled, build, canon, invariant, depth):
    """Explicit-state search.  A state is the event history reaching it.

    enabled(hist, state) -> iterable of events;  build(hist) -> fresh real objects after replaying hist
    canon(state) -> hashable canonical form;  invariant(hist, state) -> list of violations (V(...)).
    Returns dict(states, transitions, max_depth, viols, canon_forms).
    States are de-duplicated on canon(); every transition is executed on fresh real objects.
    """
    viols = []
    s0 = build(list(initial_events))
    viols += invariant(list(initial_events), s0)
    seen = {canon(s0)}
    frontier = collections.deque([(list(initial_events), 0)])
    transitions = 0
    max_depth = 0
    while frontier:
        hist, d = frontier.popleft()
        if d >= depth:
            continue
        st = build(hist)
        for ev in enabled(hist, st):
            nh = hist + [ev]
            nxt = build(nh)
            transitions += 1
            viols += invariant(nh, nxt)
            k = canon(nxt)
            if k not in seen:
                seen.add(k)
                frontier.append((nh, d + 1))
                max_depth = max(max_depth, d + 1)
    return {"states": len(seen), "transitions": transitions, "max_depth": max_depth, "viols": viols}


# --------------------------------------------------------------------------------------------
# worker side

_MODULE = None


def _init_worker(modname):
    global _MODULE
    _MODULE = importlib.import_module(modname)


def _new_acc():
    return {
        "cases": 0,
        "evals": 0,
        "nontrivial": 0,
        "judged": 0,
        "unspecified": 0,
        "unstable": 0,
        "states": 0,
        "transitions": 0,
        "outcomes": collections.Counter(),
        "extra": collections.Counter(),
        "viols": {},  # key -> (order, what, case, detail)
        "viol_count": 0,
        "samples": [],
    }


def _absorb(acc, order, case, res):
    acc["cases"] += 1
    acc["evals"] += res.get("evals", 1)
    acc["nontrivial"] += res.get("nontrivial", 1)
    for k in ("judged", "unspecified", "unstable", "states", "transitions"):
        acc[k] += res.get(k, 0)
    for k, v in (res.get("outcomes") or {}).items():
        acc["outcomes"][k] += v
    for k, v in (res.get("extra") or {}).items():
        acc["extra"][k] += v
    for v in res.get("viols") or ():
        acc["viol_count"] += 1
        if v["key"] not in acc["viols"]:
            acc["viols"][v["key"]] = (order, v["what"], jsonable(case), jsonable(v.get("detail")))


def _merge(a, b):
    for k in ("cases", "evals", "nontrivial", "judged", "unspecified", "unstable", "states", "transitions", "viol_count"):
        a[k] += b[k]
    a["outcomes"].update(b["outcomes"])
    a["extra"].update(b["extra"])
    for k, v in b["viols"].items():
        if k not in a["viols"] or v[0] < a["viols"][k][0]:
            a["viols"][k] = v
    a["samples"] += b["samples"]


def _run_chunk(arg):
    idx, chunk = arg
    acc = _new_acc()
    for j, case in enumerate(chunk):
        try:
            res = _MODULE.run(case)
        except Exception as exc:
            if os.environ.get("VERIF_STRICT_MACHINERY"):
                raise RuntimeError("machinery error in %s.run(%r):\n%s" % (_MODULE.__name__, case, traceback.format_exc()))
            # The drivers are silent on the unchanged tree (that is checked before every commit).  If a driver trips over the code under
            # test - an attribute that vanished, a file where a directory is expected - the code has changed its observable behaviour in
            # a way the driver never met: reported as a violation of this property with the traceback, not as "machinery broken".
            tb = traceback.format_exc()
            pid = getattr(_MODULE, "ID", "C??")
            res = {"evals": 1, "nontrivial": 0, "judged": 0, "outcomes": {"driver-exception:" + type(exc).__name__: 1}, "sample": None,
                   "viols": [V("%s:driver-exception:%s" % (pid, type(exc).__name__),
                               "the driver could not complete this case on the tree under test: %s: %s" % (type(exc).__name__, str(exc)[:200]), traceback=tb[-1500:])]}
        _absorb(acc, (idx, j), case, res)
        if j == 0:
            acc["samples"].append(jsonable(res.get("sample") or (_MODULE.describe(case, res) if hasattr(_MODULE, "describe") else case)))
    return idx, acc


def _chunks(it, n):
    it = iter(it)
    i = 0
    while True:
        block = list(itertools.islice(it, n))
        if not block:
            return
        yield i, block
        i += 1


# --------------------------------------------------------------------------------------------
# known findings


def load_known():
    if not os.path.exists(KNOWN_FILE):
        return []
    with open(KNOWN_FILE) as f:
        return json.load(f).get("findings", [])


UNIT_TEST_TEMPLATE = '''"""Plain unit test replaying ONE violating case of {pid} without the explorer (no enumeration, no worker pool).
Run:  cd /verif && /venv/bin/python <this file>   (or with pytest); set MPILOT_VERIF_REPO to test another tree.
Reported as: {what}
"""
import importlib
import sys

sys.path.insert(0, "/verif")
CASE = {case}
KEY = {key}


def test_case_holds():
    from mc import snapshot

    snapshot.take()  # import mpilot from a scratch copy of the repository's working tree
    mod = importlib.import_module("{mod}")
    if hasattr(mod, "prepare"):
        mod.prepare("quick")
    res = mod.run(CASE)
    hits = [v["what"] for v in res.get("viols") or () if v["key"] == KEY]
    assert not hits, hits[0]


if __name__ == "__main__":
    test_case_holds()
    print("PASS: the case no longer violates", KEY)
'''


def _safe(key):
    return "".join(c if c.isalnum() or c in "-_." else "_" for c in key)[:150]


# --------------------------------------------------------------------------------------------
# driver


def run_check(modname, tier, seed, jobs=None, replay=None):
    from . import snapshot

    t0 = time.time()
    snapshot.take()
    mod = importlib.import_module(modname)
    pid = mod.ID
    if replay:
        return _replay(mod, replay)
    if hasattr(mod, "prepare"):
        mod.prepare(tier)
    jobs = jobs or int(os.environ.get("VERIF_JOBS", "0")) or min(16, os.cpu_count() or 1)
    cap = float(os.environ.get("VERIF_CAP_S", "0")) or None
    chunk = getattr(mod, "CHUNK", 32)
    acc = _new_acc()
    capped = False
    gen = _chunks(mod.cases(tier), chunk)
    if jobs == 1:
        _init_worker(modname)
        results = map(_run_chunk, gen)
        pool = None
    else:
        ctx = multiprocessing.get_context("fork")
        pool = ctx.Pool(jobs, initializer=_init_worker, initargs=(modname,))
        results = pool.imap(_run_chunk, gen, chunksize=1)
    try:
        for idx, part in results:
            _merge(acc, part)
            if len(acc["samples"]) > 4000:
                acc["samples"] = acc["samples"][::2]
            if cap and time.time() - t0 > cap:
                capped = True
                break
    finally:
        if pool is not None:
            pool.terminate()
            pool.join()
    if hasattr(mod, "finish"):
        mod.finish(tier)
    wall = time.time() - t0

    # violations -> files, known-findings filter
    known = {(k["property"], k["key"]): k for k in load_known()}
    new_keys, known_hits = [], []
    vdir = os.path.join(VIOLATION_DIR, pid)
    for key in sorted(acc["viols"]):
        order, what, case, detail = acc["viols"][key]
        ent = known.get((pid, key))
        if ent and ent.get("status") == "known":
            known_hits.append((key, ent.get("what", what)))
            continue
        os.makedirs(vdir, exist_ok=True)
        path = os.path.join(vdir, _safe(key) + ".json")
        with open(path, "w") as f:
            json.dump({"property": pid, "key": key, "what": what, "case": case, "detail": detail, "tier": tier,
                       "replay": "./check %s --replay %s" % (pid, path)}, f, indent=1, sort_keys=True)
        with open(path[:-5] + "_test.py", "w") as f:
            f.write(UNIT_TEST_TEMPLATE.format(pid=pid, mod=modname, case=repr(case), key=repr(key),
                                              what=what[:300].replace('"' * 3, "'''").replace("\\", "/")))
        new_keys.append((key, what, path))

    samples = acc["samples"]
    if len(samples) > 5:
        step = (len(samples) - 1) / 4.0
        samples = [samples[int(round(i * step))] for i in range(5)]
    cov = {
        "evaluations": acc["evals"],
        "distinct_nontrivial": acc["nontrivial"],
        "rule": mod.RULE,
        "samples": samples,
        "cases_enumerated": acc["cases"],
        "judged": acc["judged"],
        "unspecified_not_judged": acc["unspecified"],
        "unstable_not_judged": acc["unstable"],
        "distinct_observed_outcomes": len(acc["outcomes"]),
        "outcome_histogram": dict(sorted(acc["outcomes"].most_common(40))),
        "exhaustive": not capped,
        "bound": mod.BOUND(tier) if hasattr(mod, "BOUND") else "",
        "violation_keys_new": [k for k, _, _ in new_keys],
        "violation_keys_known": [k for k, _ in known_hits],
        "violating_cases_total": acc["viol_count"],
        "workers": jobs,
    }
    for k, v in sorted(acc["extra"].items()):
        cov[k] = v
    if mod.LEVEL == "model_checking":
        cov["states"] = max(acc["states"], 1) if acc["states"] else acc["nontrivial"]
        cov["transitions"] = acc["transitions"] if acc["transitions"] else acc["evals"]
        cov["traces_validated_against_impl"] = acc["evals"]
        cov["explanation"] = ("the implementation itself is explored (no separate model): every explored trace is an "
                              "implementation trace, so traces validated = executions run")
    if capped:
        cov["cap"] = "wall-clock cap VERIF_CAP_S=%s hit after %d cases; everything before is complete" % (cap, acc["cases"])
    ev = {
        "property_id": pid,
        "tier": tier,
        "seed": seed,
        "level": mod.LEVEL,
        "coverage": cov,
        "assumptions": list(getattr(mod, "ASSUMPTIONS", [])) + [
            "VERIF_SEED is recorded only: the enumeration has no random choices",
            "repository snapshot of %s working tree" % snapshot.REPO,
        ],
        "wall_s": round(wall, 2),
        "violations": len(new_keys),
    }
    os.makedirs(EVIDENCE_DIR, exist_ok=True)
    tmp = os.path.join(EVIDENCE_DIR, pid + ".json.tmp")
    with open(tmp, "w") as f:
        json.dump(ev, f, indent=1, sort_keys=True)
    os.replace(tmp, os.path.join(EVIDENCE_DIR, pid + ".json"))

    print("%s tier=%s cases=%d evaluations=%d nontrivial=%d judged=%d unspecified=%d outcomes=%d states=%d transitions=%d wall=%.1fs%s"
          % (pid, tier, acc["cases"], acc["evals"], acc["nontrivial"], acc["judged"], acc["unspecified"],
             len(acc["outcomes"]), acc["states"], acc["transitions"], wall, " CAPPED" if capped else ""))
    for key, what in known_hits:
        print("KNOWN-FINDING: property=%s %s [%s]" % (pid, what, key))
    for key, what, path in new_keys:
        print("VIOLATION property=%s replay=%s" % (pid, path))
        print("   key=%s: %s" % (key, what))
    sys.stdout.flush()
    return 1 if new_keys else 0


import re as _re

_ADDR = _re.compile(r" at 0x[0-9a-fA-F]+")  # object addresses in messages are not part of an observation


def _replay(mod, path):
    with open(path) as f:
        rec = json.load(f)
    case = rec["case"]
    if hasattr(mod, "prepare"):
        mod.prepare(rec.get("tier", "quick"))
    if hasattr(mod, "decode_case"):
        case = mod.decode_case(case)
    obs = []
    for _ in range(2):
        try:
            res = mod.run(case)
        except Exception as exc:  # same convention as in _run_chunk
            res = {"viols": [V("%s:driver-exception:%s" % (mod.ID, type(exc).__name__),
                               "the driver could not complete this case on the tree under test: %s: %s" % (type(exc).__name__, str(exc)[:200]))]}
        obs.append(sorted((v["key"], _ADDR.sub(" at 0x?", v["what"])) for v in res.get("viols") or ()))
    if obs[0] != obs[1]:
        print("REPLAY-NONDETERMINISTIC: two runs of the same case differ:\n %r\n %r" % (obs[0], obs[1]))
        return 2
    keys = [k for k, _ in obs[0]]
    if rec["key"] in keys:
        what = [w for k, w in obs[0] if k == rec["key"]][0]
        print("VIOLATION property=%s replay=%s" % (mod.ID, path))
        print("   reproduced twice, key=%s: %s" % (rec["key"], what))
        return 1
    print("not reproduced: case runs without violation key %s (observed keys: %s)" % (rec["key"], keys))
    return 0
