"""C07 — arithmetic commands are correct for all numeric types and input orders.

Packed lattice mode: for every command, n=1..5 inputs, EVERY int/float element-type assignment of the inputs, all tuples of the
value lattice (float inputs: V u {MISSING}; integer inputs: integer sub-lattice u {MISSING}) in one call; weights from
{-1,0,1/2,1,2}^n.  The full product contains every permutation of every tuple and every dtype order, so commutativity
("succeed or fail alike, same values") is decided by comparison with the symmetric reference.
Error space: every pair of shapes (mismatch), weight count != input count, empty input list; str() of the error must render.
"""
import itertools
from fractions import Fraction as F

import numpy

from ..core import V
from .. import numdrv as D

ID = "C07"
LEVEL = "exploration"
CHUNK = 1
RULE = ("cases = (command, n, dtype assignment, preset); each evaluates all tuples of the per-input lattices in one packed call "
        "and compares every cell with exact rational arithmetic; error cases enumerate shape pairs / weight counts / empty lists; "
        "non-trivial = distinct (command, dtypes, preset, cell tuple) with >=1 non-missing input")
ASSUMPTIONS = ["float32 inputs (thorough tier) are compared to 1e-6 relative", "value lattice V={-2,-1,-1/2,0,1/4,1,3/2,2,5}, integers {-2,-1,0,1,2,5}; numeric equality irrespective of result dtype"]
M = None
VF = [F(-2), F(-1), F(-1, 2), F(0), F(1, 4), F(1), F(3, 2), F(2), F(5)]
VI = [F(-2), F(-1), F(0), F(1), F(2), F(5)]
COARSE_F = [F(-2), F(0), F(1, 4), F(1), F(5)]
COARSE_I = [F(-2), F(0), F(1), F(5)]
TINY_F = [F(-1), F(0), F(3, 2)]
TINY_I = [F(-1), F(0), F(2)]
NARY = ("Sum", "Multiply", "Minimum", "Maximum", "Mean", "WeightedSum", "WeightedMean")
OPS = ("Copy", "AMinusB", "ADividedByB") + NARY


def BOUND(tier):
    return ("n<=3 full lattice+MISSING, n=4 coarse lattice, n=5 3-value lattice+MISSING; all 2^n dtype assignments; weights {-1,0,1/2,1,2}^n (n<=2), "
            "selected vectors n>=3; all shape pairs of sizes 1,2,4 rank<=3; all (n,m) weight-count mismatches n,m<=3"
            + ("" if tier == "quick" else "; thorough: n=4 full lattice, weights {-1,0,1/2,1,2}^3, int32/float32 inputs"))


def _lat(n, dt, tier):
    if n <= 3 or (n == 4 and tier == "thorough"):
        return (VF if dt == "float" else VI) + [M]
    if n == 4:
        return COARSE_F if dt == "float" else COARSE_I
    return (TINY_F if dt == "float" else TINY_I) + [M]


def _presets(op, n, tier):
    if op in ("WeightedSum", "WeightedMean"):
        ws = [-1, 0, 0.5, 1, 2]
        if n <= 2 or (n == 3 and tier == "thorough"):
            vecs = [list(v) for v in itertools.product(ws, repeat=n)]
        else:
            vecs = [[1] * n, [2, 0.5, 1, 1, 3][:n], [0.5, 2, -1, 1, 1][:n], [1, 2, 3, 4, 5][:n], [1, 1, 0.25, 2, 2][:n]]
        # weights that add up to ALMOST one (a third each written to five places, ...): the mean still divides by their sum
        near = {1: [[0.99999], [1.00001]], 2: [[0.5, 0.50001], [0.3, 0.69999]], 3: [[0.33333] * 3, [0.5, 0.25, 0.25001]]}.get(n, [[0.2] * (n - 1) + [0.2 + 1e-5 * n]])
        vecs = vecs + near
        return [{"Weights": v} for v in vecs]
    return [{}]


def _ns(op):
    if op == "Copy":
        return (1,)
    if op in ("AMinusB", "ADividedByB"):
        return (2,)
    return (1, 2, 3, 4, 5)


def cases(tier):
    for op in OPS:
        for n in _ns(op):
            for dts in itertools.product(("float", "int"), repeat=n):
                for pi in range(len(_presets(op, n, tier))):
                    yield ("packed", op, n, dts, pi, tier)
    if tier == "thorough":
        for op in OPS:
            for n in _ns(op):
                if n <= 2:
                    for dts in itertools.product(("float32", "int32", "float", "int"), repeat=n):
                        if set(dts) <= {"float", "int"}:
                            continue
                        yield ("packed", op, n, dts, 0, tier)
    for op in OPS:
        yield ("errors", op, tier)
    for op in OPS:
        for n in _ns(op):
            if n <= 3:
                yield ("viacmd", op, n)


def _packed(case):
    _, op, n, dts, pi, tier = case
    params = _presets(op, n, tier)[pi]
    lats = [_lat(n, "int" if d.startswith("int") else "float", tier) for d in dts]
    tuples = list(itertools.product(*lats))
    cols = [[t[i] for t in tuples] for i in range(n)]
    arrays = [D.mk_array(c, dtype=d) for c, d in zip(cols, dts)]
    viols = []
    counters = {"judged": 0, "unspecified": 0}
    tag = {"op": op, "n": n, "dtypes": list(dts), "params": params}
    res = D.execute(op, arrays, params)
    # single-precision inputs give single-precision results: compare those to 2^-20 relative
    tol = 1e-6 if any(d == "float32" for d in dts) else 1e-9
    oc = D.judge("C07", op, params, cols, res, (len(tuples),), viols, tag, counters, V, tol=tol)
    # the same call with the keyword arguments handed over in the opposite order (B = ..., A = ...; Weights before InFieldNames)
    viols_r = []
    res_r = D.execute(op, arrays, params, reverse_keywords=True)
    D.judge("C07", op, params, cols, res_r, (len(tuples),), viols_r, dict(tag, keyword_order="reversed"), {"judged": 0, "unspecified": 0}, V, tol=tol)
    have = {v["key"] for v in viols}
    for v in viols_r:
        if v["key"] not in have:
            v["key"] += ":keywords-reversed"
            viols.append(v)
    # the same cells arranged as grids (incl. one with as many rows as there are inputs) and as a rank-3 block: cell-wise commands give the
    # vector result reshaped
    if res[0] == "ok" and isinstance(res[1], numpy.ndarray) and len(tuples) > 1:
        N = len(tuples)
        shapes = []
        for r in (n, 2, 3, 5):
            if r > 1 and N % r == 0 and (r, N // r) not in shapes:
                shapes.append((r, N // r))
        f = next((d for d in (2, 3, 5) if N % (d * d) == 0), None)
        if f:
            shapes.append((f, f, N // (f * f)))
        if not shapes:
            shapes = [(1, N)]
        flat = numpy.ma.asarray(res[1])
        fm = numpy.ma.getmaskarray(flat)
        for shp in shapes[:3]:
            rg = D.execute(op, [D.mk_array(c, dtype=d, shape=shp) for c, d in zip(cols, dts)], params)
            ok = rg[0] == "ok" and isinstance(rg[1], numpy.ndarray) and tuple(rg[1].shape) == shp
            if ok:
                g = numpy.ma.asarray(rg[1]).reshape(N)
                gm = numpy.ma.getmaskarray(g)
                ok = bool((gm == fm).all()) and bool(numpy.array_equal(g.filled(0), flat.filled(0)))
            if not ok:
                what = "raised %s" % D.error_name(rg[1]) if rg[0] != "ok" else "differs from the vector result"
                viols.append(V("C07:%s:grid-differs-from-vector" % op, "%s %r on inputs of shape %r %s" % (op, params, shp, what), **dict(tag, shape=list(shp))))
                break
    # key must distinguish the dtype order for raised errors (Sum([int,float]) vs Sum([float,int]))
    for v in viols:
        if ":raised:" in v["key"] or ":mask-dropped" in v["key"]:
            kinds = ["int" if d.startswith("int") else "float" for d in dts]
            v["key"] += ":" + ("all-" + kinds[0] if len(set(kinds)) == 1 else kinds[0] + "-first-mixed")
    if res[0] == "ok" and isinstance(res[1], numpy.ndarray):
        flat = numpy.ma.asarray(res[1])
        if flat.dtype.kind == "f":
            vals = flat.compressed()
            if not numpy.all(numpy.isfinite(vals)):
                viols.append(V("C07:%s:non-finite" % op, "%s %r %r returned inf/nan at a non-missing cell" % (op, dts, params), **tag))
    nontriv = sum(1 for t in tuples if any(x is not None for x in t))
    return {"evals": len(tuples), "nontrivial": nontriv, "judged": counters["judged"], "unspecified": counters["unspecified"],
            "viols": viols, "outcomes": {"%s:%s:%s" % (op, oc, "".join(d[0] for d in dts)): 1},
            "sample": {"op": op, "dtypes": list(dts), "params": params, "cells_in_one_call": len(tuples),
                       "tuple_17": [str(x) for x in tuples[min(17, len(tuples) - 1)]]}}


def _viacmd(case):
    """through Command.run (argument cleaning included), with UNSIGNED element types in the mix (what the NetCDF reader delivers for
    DataType = "Positive Integer"): every assignment of {int64, float64, uint64} to <=2 inputs (3 for all-unsigned) over a small lattice"""
    _, op, n = case
    viols = []
    counters = {"judged": 0, "unspecified": 0}
    outcomes = {}
    evals = 0
    sample = None
    lat_u = [F(0), F(1), F(3), F(5), M]
    lat_s = [F(-2), F(0), F(1), F(5), M]
    lat_f = [F(-5, 2), F(0), F(1, 2), F(11, 4), M]  # (fractions: a float next to an unsigned input keeps them)
    for dts in itertools.product(("int", "float", "uint"), repeat=n):
        if "uint" not in dts:
            continue
        if n == 3 and set(dts) != {"uint"}:
            continue
        lats = [lat_u if d == "uint" else lat_f if d == "float" else lat_s for d in dts]
        tuples = list(itertools.product(*lats))
        cols = [[t[i] for t in tuples] for i in range(n)]
        for params in _presets(op, n, "quick")[:6]:
            arrays = [D.mk_array(c, dtype=d) for c, d in zip(cols, dts)]
            res = D.run_via_command(op, arrays, params)
            evals += len(tuples)
            tag = {"op": op, "n": n, "dtypes": list(dts), "params": params, "through": "Command.run"}
            sample = tag
            nv = len(viols)
            oc = D.judge("C07", op, params, cols, res, (len(tuples),), viols, tag, counters, V)
            for v in viols[nv:]:
                v["key"] += ":unsigned-input"
            outcomes["%s:viacmd:%s" % (op, oc)] = outcomes.get("%s:viacmd:%s" % (op, oc), 0) + 1
    # the SAME result listed twice (a legitimate way of counting a layer double): Sum([A, A, B]) is 2A + B
    if op in ("Sum", "Multiply", "Minimum", "Maximum", "Mean") and n <= 2:
        for dts in itertools.product(("int", "float"), repeat=n):
            lats = [lat_f if d == "float" else lat_s for d in dts]
            tuples = list(itertools.product(*lats))
            cols = [[t[i] for t in tuples] for i in range(n)]
            arrays = [D.mk_array(c, dtype=d) for c, d in zip(cols, dts)]
            res = D.run_via_command(op, arrays, {}, repeat_first=True)
            evals += len(tuples)
            tag = {"op": op, "n": n + 1, "dtypes": [dts[0]] + list(dts), "inputs": "the first result is listed twice", "through": "Command.run"}
            nv = len(viols)
            oc = D.judge("C07", op, {}, [cols[0]] + cols, res, (len(tuples),), viols, tag, counters, V)
            for v in viols[nv:]:
                v["key"] += ":result-listed-twice"
            outcomes["%s:viacmd-repeat:%s" % (op, oc)] = outcomes.get("%s:viacmd-repeat:%s" % (op, oc), 0) + 1
    # NARROW unsigned types (byte / 16-bit rasters handed over by a plug-in command or through the API) holding values in the upper half of their
    # range, for the commands whose results fit: differences, extremes, means and quotients
    if op in NARROW_OPS and n <= 2:
        lat8 = [F(0), F(5), F(200), F(255), M]
        lat16 = [F(0), F(5), F(40000), F(65535), M]
        for dts in ([("uint8",), ("uint16",)] if n == 1 else [("uint8", "uint8"), ("uint16", "uint16"), ("uint8", "int"), ("int", "uint8"), ("uint16", "float"), ("uint8", "uint16")]):
            lats = [lat8 if d == "uint8" else lat16 if d == "uint16" else lat_f if d == "float" else lat_s for d in dts]
            tuples = list(itertools.product(*lats))
            cols = [[t[i] for t in tuples] for i in range(n)]
            for params in _presets(op, n, "quick")[:6]:
                arrays = [D.mk_array(c, dtype=d) for c, d in zip(cols, dts)]
                res = D.run_via_command(op, arrays, params)
                evals += len(tuples)
                tag = {"op": op, "n": n, "dtypes": list(dts), "params": params, "through": "Command.run"}
                nv = len(viols)
                oc = D.judge("C07", op, params, cols, res, (len(tuples),), viols, tag, counters, V)
                for v in viols[nv:]:
                    v["key"] += ":narrow-unsigned-input"
                outcomes["%s:viacmd-narrow:%s" % (op, oc)] = outcomes.get("%s:viacmd-narrow:%s" % (op, oc), 0) + 1
    return {"evals": max(evals, 1), "nontrivial": evals, "judged": counters["judged"], "unspecified": counters["unspecified"], "viols": viols[:30],
            "outcomes": outcomes, "sample": sample}


NARROW_OPS = ("AMinusB", "Minimum", "Maximum", "ADividedByB", "Copy")  # (sums of narrow integers wrap in numpy's fixed-width arithmetic: DESIGN section 6, observed)


def _errors(case):
    _, op, tier = case
    viols = []
    outcomes = {}
    evals = judged = 0
    sample = None

    def note(k):
        outcomes[k] = outcomes.get(k, 0) + 1

    def expect(err_names, res, what, tag):
        nonlocal judged
        judged += 1
        if res[0] == "ok":
            viols.append(V("C07:%s:accepted:%s" % (op, err_names[0]), "%s accepted %s (expected %s)" % (op, what, "/".join(err_names)), **tag))
            note("accepted")
            return
        name = D.error_name(res[1])
        if name not in err_names:
            viols.append(V("C07:%s:wrong-error:%s" % (op, name), "%s on %s raised %s: %s (expected %s)" % (op, what, name, str(res[1])[:100], "/".join(err_names)), **tag))
            note("wrong-error")
            return
        try:
            s = str(res[1])
            if not s:
                raise ValueError("empty message")
            note("err:" + name)
        except Exception as exc:
            viols.append(V("C07:%s:error-str-raises:%s" % (name, type(exc).__name__), "str(%s) raised %r for %s" % (name, exc, what), **tag))

    ar = D.arity(op)
    # shape mismatches
    if ar in ("2", "n"):
        shapes = []
        for size in (1, 2, 4):
            shapes += D.shapes_of(size)
        shapes.insert(0, ())  # a 0-dimensional array (a scalar NetCDF variable): one cell, but not the shape of any other array
        ns = (2,) if ar == "2" else (2, 3)
        for n in ns:
            for sa, sb in itertools.product(shapes, repeat=2):
                if sa == sb:
                    continue
                for pos in range(1, n):
                    shp = [sa] * n
                    shp[pos] = sb
                    arrays = []
                    for s in shp:
                        size = int(numpy.prod(s))
                        arrays.append(D.mk_array([F(1)] * size, shape=s))
                    params = {"Weights": [1] * n} if op.startswith("Weighted") else {}
                    tag = {"op": op, "shapes": [list(s) for s in shp]}
                    res = D.execute(op, arrays, params)
                    evals += 1
                    expect(("MixedArrayShapes",), res, "shapes %r" % (shp,), tag)
                    sample = tag
    if ar == "n":
        # three inputs of three DIFFERENT shapes (every ordering of a few triples)
        for trio in (((2,), (3,), (4,)), ((2, 2), (4,), (1, 4)), ((), (1,), (1, 1))):
            for shp in itertools.permutations(trio):
                arrays = [D.mk_array([F(1)] * int(numpy.prod(s_)), shape=s_) for s_ in shp]
                params = {"Weights": [1, 1, 1]} if op.startswith("Weighted") else {}
                res = D.execute(op, arrays, params)
                evals += 1
                expect(("MixedArrayShapes",), res, "shapes %r" % (shp,), {"op": op, "shapes": [list(s_) for s_ in shp]})
        # empty input list
        params = {"Weights": []} if op.startswith("Weighted") else {}
        res = D.execute(op, [], params)
        evals += 1
        expect(("EmptyInputs",), res, "an empty input list", {"op": op, "inputs": []})
        if op.startswith("Weighted"):
            res = D.execute(op, [], {"Weights": [1]})
            evals += 1
            expect(("EmptyInputs", "MismatchedWeights"), res, "an empty input list with one weight", {"op": op, "inputs": [], "weights": [1]})
            for n in (1, 2, 3):
                for m in (0, 1, 2, 3):
                    if n == m:
                        continue
                    arrays = [D.mk_array([F(1), F(2)]) for _ in range(n)]
                    res = D.execute(op, arrays, {"Weights": [1] * m})
                    evals += 1
                    expect(("MismatchedWeights",), res, "%d inputs with %d weights" % (n, m), {"op": op, "n": n, "weights": m})
    return {"evals": max(evals, 1), "nontrivial": evals, "judged": judged, "viols": viols, "outcomes": outcomes, "sample": sample}


def run(case):
    case = tuple(case)
    if case[0] == "packed":
        return _packed((case[0], case[1], case[2], tuple(case[3]), case[4], case[5]))
    if case[0] == "viacmd":
        return _viacmd(case)
    return _errors(case)
