"""C14 — cyclic models are rejected with RecursiveModelStructure, never silently skipped, never a stack overflow.

Space: every labelled digraph with >=1 cycle (self-loops included) on n<=3 commands with every edge kind
(direct / list / nested list), n=4 with one kind per graph, thorough n=5 direct edges (<=7 edges); built via
add_command and from_source; events run(), run() again, and result of every command.
"""
import itertools
import sys

from ..core import V
from ..ref import evalgraph as G

ID = "C14"
LEVEL = "model_checking"
CHUNK = 1
LIB = ("mc.vlib.graph",)
RULE = ("cases = labelled digraphs with at least one cycle x reference kinds x {API, source} over a generic command, plus every built-in "
        "data command x arity x preset x back-reference position x {self-loop, 2-cycle, 3-cycle} x 2 orders; each program is driven "
        "through run(), run() again and result of every command on fresh objects; non-trivial = distinct cyclic programs; "
        "acyclic graphs of the same sizes are the negative control (must not raise)")
ASSUMPTIONS = ["recursion limit lowered to current depth+250 so runaway recursion is detected deterministically",
               "the error class of reading the result of a command that reaches a cycle is unspecified (must be an MPilot error, never a value)"]


def BOUND(tier):
    return ("n<=2 all digraphs x per-edge kinds; n=3 all digraphs: per-edge kinds for <=4 edges, one kind per graph (d,l,n) above; "
            "n=4 all 65536 digraphs: per-edge kinds <=2 edges, one kind per graph <=6 edges, direct edges above" if tier == "quick" else
            "n<=3 all digraphs x per-edge kinds x 2 namings; n=4 all digraphs: per-edge kinds <=4 edges, one kind per graph above; "
            "n=5 direct edges, all digraphs with <=6 edges")


def _pairs(n):
    return G.all_pairs(n, loops=True)


def cases(tier):
    for c in _real_cases():
        yield c
    # (how, n, lo, hi, naming, per-edge kinds up to this many edges, uniform kinds d/l/n up to this many edges (else "d" only))
    q = tier == "quick"
    for n in (1, 2, 3):
        total = 1 << (n * n)
        step = max(1, total // 128)
        for nm in ((0,) if q else (0, 1)):
            for lo in range(0, total, step):
                yield ("mask", n, lo, min(total, lo + step), nm, 4 if (q and n == 3) else 9, 9)
    total = 1 << 16
    step = 1 << 7
    for lo in range(0, total, step):
        yield ("mask", 4, lo, lo + step, 0, 2 if q else 4, 6 if q else 16)
    if tier == "thorough":
        # n=5, direct edges, <=6 edges: enumerate edge subsets by combination index blocks
        pairs = _pairs(5)
        for k in range(1, 7):
            for first in range(len(pairs)):
                yield ("comb", 5, k, first, 0, 0, 0)


REAL_LIBS = ("mpilot.libraries.eems.basic", "mpilot.libraries.eems.fuzzy", "mc.vlib.const")


def _real_cases():
    from ..ref import sig as SIG
    from .. import numdrv as D

    for cmd in SIG.DATA_COMMANDS:
        for n in D.arities(cmd):
            yield ("real", cmd, n)
    yield ("real", "PrintVars", 0)


def _real_printvars():
    """cycles made ONLY of PrintVars commands (it accepts any result, another PrintVars' included): self-loop, 2-cycle, 3-ring, each with and
    without a PrintVars tail and an unrelated acyclic part, all textual orders of <=3 commands"""
    import contextlib
    import io
    import numpy
    from mpilot.program import Program
    from mpilot.exceptions import RecursiveModelStructure
    from ..vlib import const as C

    C.TABLE["nf"] = lambda: numpy.ma.MaskedArray([0.5, 2.0])
    viols, outcomes = [], {}
    evals = 0
    sample = None
    rings = {1: [("P0", ["P0"])], 2: [("P0", ["P1"]), ("P1", ["P0"])], 3: [("P0", ["P1"]), ("P1", ["P2"]), ("P2", ["P0"])]}
    old = sys.getrecursionlimit()
    sys.setrecursionlimit(_limit())
    try:
        for k, ring in rings.items():
            for tail in (False, True):
                for extra in (False, True):
                    cmds = [(nm, "PrintVars", {"InFieldNames": refs + (["X"] if extra else [])}) for nm, refs in ring]
                    if tail:
                        cmds.append(("T", "PrintVars", {"InFieldNames": ["P0"]}))
                    if extra:
                        cmds.append(("X", "ConstNF", {"Key": "nf"}))
                    for perm in itertools.permutations(range(len(cmds))) if len(cmds) <= 4 else [tuple(range(len(cmds))), tuple(reversed(range(len(cmds))))]:
                        p = Program(libraries=REAL_LIBS)
                        for i in perm:
                            nm, cn, a = cmds[i]
                            p.add_command(p.command_library[cn], nm, dict(a))
                        tag = {"cycle": "%d PrintVars" % k, "tail": tail, "with_acyclic_part": extra, "source": p.to_string()}
                        sample = tag
                        for attempt in (1, 2):
                            evals += 1
                            try:
                                with contextlib.redirect_stdout(io.StringIO()):
                                    p.run()
                                oc = "returned"
                                viols.append(V("C14:real:run-returned:PrintVars", "run() #%d of a model with a cycle of %d PrintVars commands returned" % (attempt, k), **tag))
                            except RecursiveModelStructure:
                                oc = "RMS"
                            except BaseException as exc:
                                oc = type(exc).__name__
                                if _is_recursion(exc):
                                    viols.append(V("C14:real:stack-overflow:PrintVars", "run() #%d ran out of stack" % attempt, **tag))
                                else:
                                    viols.append(V("C14:real:wrong-error:PrintVars:%s" % type(exc).__name__, "run() #%d raised %r instead of RecursiveModelStructure" % (attempt, exc), **tag))
                            outcomes["real:printvars:" + oc] = outcomes.get("real:printvars:" + oc, 0) + 1
    finally:
        sys.setrecursionlimit(old)
    return {"evals": evals, "nontrivial": evals, "judged": evals, "viols": viols[:20], "outcomes": outcomes, "sample": sample, "extra": {"cyclic_programs": evals // 2}}


def _real(case):
    """the BUILT-IN commands on a cycle: every data command x arity x parameter preset (incl. zero weights) x every input position holding
    the back reference x {self-loop, 2-cycle through a well-typed partner command, 3-cycle}: run() must raise RecursiveModelStructure"""
    import numpy
    from mpilot.program import Program
    from mpilot.exceptions import RecursiveModelStructure, MPilotError
    from ..ref import sig as SIG
    from .. import numdrv as D
    from ..vlib import const as C

    _, cmd, n = case
    if cmd == "PrintVars":
        return _real_printvars()
    C.TABLE["nf"] = lambda: numpy.ma.MaskedArray([0.5, 2.0, -1.0, 0.0], mask=[False, False, False, True])
    C.TABLE["fz"] = lambda: numpy.ma.MaskedArray([0.5, 1.0, -1.0, 0.0], mask=[False, True, False, False])
    fin = SIG.input_fuzz(cmd) == "fz"
    fout = cmd in SIG.FUZZY_PRODUCERS
    # partner: consumes cmd's result, produces what cmd's inputs demand (so that the ONLY defect of the model is the cycle)
    partner = {(True, True): ("FuzzyNot", {}), (True, False): ("CvtFromFuzzy", {"TrueThreshold": 1, "FalseThreshold": 0}),
               (False, True): ("CvtToFuzzy", {"TrueThreshold": 1, "FalseThreshold": 0}), (False, False): ("Copy", {})}[(fout, fin)]
    slots = SIG.result_slots(cmd)
    viols, outcomes = [], {}
    evals = 0
    sample = None
    old = sys.getrecursionlimit()
    sys.setrecursionlimit(_limit())
    try:
        for params in D.presets_small(cmd, n):
            for pos in range(n):
                for shape in ("self", "two", "three"):
                    if shape == "self" and SIG.input_fuzz(cmd) != "*" and fin != fout:
                        continue  # a self-loop of this command is ill-typed as well (which error comes first is not stated)
                    for order in (0, 1):
                        p = Program(libraries=REAL_LIBS)
                        lib = p.command_library
                        back = {"self": "T", "two": "P1", "three": "P2"}[shape]
                        ins = [back if i == pos else "X%d" % i for i in range(n)]
                        args = dict(params)
                        if len(slots) == 2:
                            args[slots[0][0]], args[slots[1][0]] = ins[0], ins[1]
                        elif slots[0][1]:
                            args[slots[0][0]] = list(ins)
                        else:
                            args[slots[0][0]] = ins[0]
                        if order:
                            args["Metadata"] = {"DisplayName": "on the cycle", "Note": "n"}  # every command takes Metadata; it changes nothing
                        cmds = [("T", lib[cmd], args)]
                        if shape != "self":
                            cmds.append(("P1", lib[partner[0]], dict(partner[1], InFieldName="T")))
                        if shape == "three":
                            # P2 passes P1's result on unchanged in kind
                            ident = ("FuzzyNot", {}) if fin else ("Copy", {})
                            cmds.append(("P2", lib[ident[0]], dict(ident[1], InFieldName="P1")))
                        for i in range(n):
                            if i != pos:
                                cmds.append(("X%d" % i, lib["ConstFZ" if fin else "ConstNF"], {"Key": "fz" if fin else "nf"}))
                        # a TAIL outside the cycle that consumes the cycle member through a typed input, and one that prints it
                        if order:
                            cmds.append(("W", lib["FuzzyNot" if fout else "Sum"], {"InFieldName": "T"} if fout else {"InFieldNames": ["T"]}))
                        else:
                            cmds.append(("PV", lib["PrintVars"], {"InFieldNames": ["T"]}))
                        if order:
                            cmds.reverse()
                        for name, cls, a in cmds:
                            p.add_command(cls, name, a)
                        tag = {"command": cmd, "params": params, "back_reference_at": pos, "cycle": shape, "order": order, "source": p.to_string()}
                        sample = tag
                        for attempt in (1, 2):
                            evals += 1
                            try:
                                with numpy.errstate(all="ignore"):
                                    p.run()
                                oc = "returned"
                                viols.append(V("C14:real:run-returned:%s" % cmd, "run() #%d of a model with a %s cycle through input %d of %s %r returned" % (
                                    attempt, shape, pos, cmd, params), **tag))
                            except RecursiveModelStructure:
                                oc = "RMS"
                            except BaseException as exc:
                                oc = type(exc).__name__
                                if _is_recursion(exc):
                                    viols.append(V("C14:real:stack-overflow:%s" % cmd, "run() #%d ran out of stack" % attempt, **tag))
                                else:
                                    viols.append(V("C14:real:wrong-error:%s:%s" % (cmd, type(exc).__name__), "run() #%d raised %r instead of RecursiveModelStructure" % (attempt, exc), **tag))
                            outcomes["real:" + oc] = outcomes.get("real:" + oc, 0) + 1
                        evals += 1
                        try:
                            with numpy.errstate(all="ignore"):
                                r = p.commands["T"].result
                            viols.append(V("C14:real:value-from-cycle:%s" % cmd, "result of %s on a %s cycle returned %r" % (cmd, shape, r), **tag))
                        except MPilotError:
                            pass
                        except BaseException as exc:
                            viols.append(V("C14:real:result-raw-exception:%s:%s" % (cmd, type(exc).__name__), "reading the result raised %r" % (exc,), **tag))
    finally:
        sys.setrecursionlimit(old)
    return {"evals": evals, "nontrivial": evals, "judged": evals, "viols": viols[:30], "outcomes": outcomes, "sample": sample,
            "extra": {"cyclic_programs": evals // 3}}


def _limit():
    depth = 0
    f = sys._getframe()
    while f is not None:
        depth += 1
        f = f.f_back
    return depth + 250


def _is_recursion(exc):
    seen = set()
    while exc is not None and id(exc) not in seen:
        seen.add(id(exc))
        if isinstance(exc, RecursionError):
            return True
        inner = getattr(exc, "exc", None)
        if isinstance(inner, RecursionError):
            return True
        exc = exc.__cause__ or exc.__context__
    return False


def _build(n, edges, names, mode):
    from mpilot.program import Program
    from ..vlib import graph as VL

    VL.reset()
    if mode == "src":
        return Program.from_source(G.render(n, edges, names), libraries=LIB)
    p = Program(libraries=LIB)
    for i in range(n):
        p.add_command(VL.Node, names[i], dict(G.slots_of(n, edges, i, names)))
    return p


def _one(n, edges, names, mode, cyclic):
    from mpilot.exceptions import RecursiveModelStructure, MPilotError
    from ..vlib import graph as VL

    tag = {"n": n, "edges": edges, "mode": mode, "source": G.render(n, edges, names)}
    viols = []
    old = sys.getrecursionlimit()
    sys.setrecursionlimit(_limit())
    try:
        # event 1: run(), then run() again on the same program
        p = _build(n, edges, names, mode)
        outcome = []
        for attempt in (1, 2):
            try:
                p.run()
                executed = sorted({x for e, x in VL.LOG if e == "enter"})
                outcome.append("returned")
                if cyclic:
                    viols.append(V("C14:run:returned:%s" % ("nothing-executed" if not executed else "partially-executed"),
                                   "run() #%d of a cyclic model returned; executed=%r" % (attempt, executed), tag=tag))
            except RecursiveModelStructure:
                outcome.append("RMS after %d executed" % len({x for e, x in VL.LOG if e == "enter"}))
                if not cyclic:
                    viols.append(V("C14:run:acyclic-rejected", "acyclic model rejected as recursive", tag=tag))
            except BaseException as exc:
                outcome.append(type(exc).__name__)
                if _is_recursion(exc):
                    viols.append(V("C14:run:stack-overflow", "run() #%d ran out of stack (%s)" % (attempt, type(exc).__name__), tag=tag))
                elif cyclic:
                    viols.append(V("C14:run:wrong-error:" + type(exc).__name__, "run() #%d raised %r instead of RecursiveModelStructure" % (attempt, exc), tag=tag))
                else:
                    viols.append(V("C14:run:acyclic-raised:" + type(exc).__name__, "acyclic model raised %r" % (exc,), tag=tag))
        # event 2: result of every command on a fresh program
        bad = G.reaches_cycle(n, edges) if cyclic else set()
        memo = {}
        for i in range(n):
            p = _build(n, edges, names, mode)
            try:
                r = p.commands[names[i]].result
                if i in bad:
                    viols.append(V("C14:result:value-from-cycle", "result of %s (reaches a cycle) returned %r" % (names[i], r), tag=tag))
                else:
                    # acyclic closure: value must be the reference value
                    sub = [e for e in edges if e[0] in G.closure(n, edges, i)]
                    want = G.value(n, tuple(sub), i, names, memo if not cyclic else {})
                    if r != want:
                        viols.append(V("C14:result:wrong-value", "result of %s is %r, reference %r" % (names[i], r, want), tag=tag))
            except MPilotError as exc:
                if _is_recursion(exc):
                    viols.append(V("C14:result:stack-overflow", "reading %s ran out of stack" % names[i], tag=tag))
                elif i not in bad:
                    viols.append(V("C14:result:acyclic-part-raised", "reading %s (acyclic closure) raised %r" % (names[i], exc), tag=tag))
            except BaseException as exc:
                if _is_recursion(exc):
                    viols.append(V("C14:result:stack-overflow", "reading %s ran out of stack" % names[i], tag=tag))
                else:
                    viols.append(V("C14:result:raw-exception:" + type(exc).__name__, "reading %s raised %r" % (names[i], exc), tag=tag))
    finally:
        sys.setrecursionlimit(old)
    return viols, "/".join(outcome)


def run(case):
    case = tuple(case)
    if case[0] == "real":
        return _real(case)
    how, n = case[0], case[1]
    viols, evals, nontriv, ctrl = [], 0, 0, 0
    outcomes = {}
    sample = None
    if how == "comb":
        _, n, k, first, nm, _, _ = case
        pairs = _pairs(n)
        names = G.NAMINGS[nm]
        for rest in itertools.combinations(range(first + 1, len(pairs)), k - 1):
            es = (pairs[first],) + tuple(pairs[j] for j in rest)
            edges = tuple((c, p, "d") for c, p in es)
            if not G.has_cycle(n, edges):
                continue
            mode = "api" if (first + len(rest) + sum(rest)) % 2 else "src"
            v, oc = _one(n, edges, names, mode, True)
            viols += v
            evals += 1 + n + 1
            nontriv += 1
            outcomes["cyclic:" + oc] = outcomes.get("cyclic:" + oc, 0) + 1
            sample = {"program": G.render(n, edges, names), "build": mode, "observed": oc}
        return {"evals": evals, "nontrivial": nontriv, "judged": evals, "viols": viols, "outcomes": outcomes, "sample": sample,
                "extra": {"cyclic_programs": nontriv}}
    _, n, lo, hi, nm, max_per_edge, max_uniform = case
    names = G.NAMINGS[nm]
    pairs = _pairs(n)
    for mask in range(lo, hi):
        es = tuple(pairs[b] for b in range(len(pairs)) if mask >> b & 1)
        cyclic = G.has_cycle(n, [(c, p, "d") for c, p in es])
        if len(es) <= max_per_edge:
            assigns = G.kind_assignments(es)
        elif len(es) <= max_uniform:
            assigns = [tuple((c, p, k) for c, p in es) for k in "dln"]
        else:
            assigns = [tuple((c, p, "d") for c, p in es)]
        for ai, edges in enumerate(assigns):
            if n <= 3:
                modes = ("api", "src")
            else:
                modes = ("api",) if (mask + ai) % 2 else ("src",)
            if not cyclic and n == 4:
                continue  # negative control only for n<=3 here (C01 covers all DAGs)
            for mode in modes:
                v, oc = _one(n, edges, names, mode, cyclic)
                viols += v
                evals += 1 + n + 1
                if cyclic:
                    nontriv += 1
                else:
                    ctrl += 1
                lab = ("cyclic:" if cyclic else "acyclic:") + oc
                outcomes[lab] = outcomes.get(lab, 0) + 1
                if cyclic:
                    sample = {"program": G.render(n, edges, names), "build": mode, "observed": oc}
    return {"evals": evals, "nontrivial": nontriv, "judged": evals, "viols": viols, "outcomes": outcomes, "sample": sample,
            "extra": {"cyclic_programs": nontriv, "acyclic_controls": ctrl}}
