"""C12 — models are accepted iff well-formed, and rejected before any side effect.

(a) matrix: every built-in command (CSV and NetCDF library sets) x every declared parameter x every raw kind
    {int, float, numeric string, word, boolean word, list of scalars, nested list, tuple, result name of every
    (fuzziness x output-kind) class, unknown name, missing, extra undeclared parameter}, inside an otherwise valid model;
(b) pairing: every command as producer x every result slot of every command;
(c) every single fault of mc/checks/c11.py at every position of two valid models (class AND named attribute of the error);
(d) the live declarations (parameters, required flags, fuzziness, output kind) against the reference signature table.
Observed: phase in which the model is rejected (load / validation / after some execute()), from wrapped execute() of all
command classes, and the listing of the scratch working directory.  Oracle: mc/ref/sig.py + the kind table below
(MUST-ACCEPT / MUST-REJECT(class) / UNSPECIFIED); every validation-class rejection must come with an empty execute log and an
unchanged directory.
"""
import contextlib
import io
import os

import numpy

from ..core import V
from .. import numdrv as D
from .. import snapshot
from ..ref import grammar as G
from ..ref import sig as SIG
from . import c11

ID = "C12"
LEVEL = "fault_enumeration"
CHUNK = 1
CSV = ("mpilot.libraries.eems.basic", "mpilot.libraries.eems.csv", "mpilot.libraries.eems.fuzzy")
NETCDF = ("mpilot.libraries.eems.basic", "mpilot.libraries.eems.netcdf", "mpilot.libraries.eems.fuzzy")
RULE = ("cases = (library set, command, parameter) with all raw kinds / (producer, consumer slot) / (model, fault, position); each is loaded "
        "from source and run; outcome phase, error class, error attributes, execute log and directory listing compared with the reference; "
        "non-trivial = distinct model texts")
ASSUMPTIONS = ["kinds the statement does not classify (number for a string or path, list for a string, ...) are UNSPECIFIED",
               "errors raised inside execute() are not rejections of the model (they are judged by C13)"]
VALIDATION = ("CommandDoesNotExist", "DuplicateResult", "MissingParameters", "NoSuchParameter", "ParameterNotValid", "PathDoesNotExist",
              "InvalidRelativePath", "ResultDoesNotExist", "ResultTypeNotValid", "ResultNotFuzzy", "ResultIsFuzzy")
RAW_KINDS = ["int", "float", "numstr", "word", "boolword", "zero", "list", "nested", "tuple", "emptylist", "ref:nf", "ref:fz", "ref:bool", "ref:writer",
             "unknown", "dtype-name", "existing-path", "missing", "extra", "inf-word", "nan-word", "huge-exponent", "list-of-inf",
             "fraction", "slash-zero", "percent", "list-of-slash-zero", "list-of-two-letter-words", "extra-outfilename", "extra-newfieldname"]  # text that looks like arithmetic: not a number
_LOG = []


def BOUND(tier):
    return "36 commands x all parameters x %d raw kinds x 2 library sets; all producer x consumer-slot pairs; all single faults of 20 kinds x 2 models" % len(RAW_KINDS)


def _wrap_all():
    """log every execute() of every registered command class (idempotent)"""
    from mpilot.commands import Command
    from mpilot.program import Program

    for libs in (CSV, NETCDF):
        try:
            Program(libraries=libs)
        except Exception:
            pass
    for info in Command.get_commands():
        cls = info.command
        ex = cls.__dict__.get("execute")
        if ex is None or getattr(ex, "_c12", False):
            continue

        def make(orig, cname):
            def execute(self, **kw):
                _LOG.append((cname, self.result_name))
                return orig(self, **kw)
            execute._c12 = True
            return execute
        cls.execute = make(ex, cls.__name__)


def _raw(rk):
    return {"int": ("int", "5"), "float": ("dec", "2.5"), "numstr": ("q", "7"), "word": ("bare", "someword"), "boolword": ("bare", "true"),
            "zero": ("int", "0"), "list": ("list", [("int", "1"), ("int", "2")]), "nested": ("list", [("list", [("int", "1")]), ("list", [("int", "2")])]),
            "tuple": ("tuple", [("bare", "k", ("q", "v"))]), "emptylist": ("list", []), "ref:nf": ("bare", "A"), "ref:fz": ("bare", "AF"),
            "ref:bool": ("bare", "PV"), "ref:writer": ("bare", "W"), "unknown": ("bare", "NoSuchResult"), "dtype-name": ("bare", "Integer"),
            "existing-path": ("q", "input.csv"), "inf-word": ("bare", "inf"), "nan-word": ("q", "nan"), "huge-exponent": ("bare", "1e999"),
            "list-of-inf": ("list", [("int", "1"), ("bare", "-Infinity")]),
            "fraction": ("q", "1/2"), "slash-zero": ("q", "1/0"), "percent": ("q", "50%"), "list-of-slash-zero": ("list", [("int", "1"), ("q", "0/0")]),
            "list-of-two-letter-words": ("list", [("bare", "ab"), ("bare", "cd")])}[rk]


def expect(kind, rk, required):
    """-> ("accept",) | ("reject", (classes)) | ("unspec",)"""
    if rk == "missing":
        return ("reject", ("MissingParameters",)) if required else ("accept",)
    if rk in ("extra", "extra-outfilename", "extra-newfieldname"):
        return ("reject", ("NoSuchParameter",))
    PNV = ("ParameterNotValid",)
    if rk in ("inf-word", "nan-word", "huge-exponent"):
        if kind == "Num":
            return ("unspec",)  # non-finite numeric text: the statement does not say whether it is a number
        rk = "word"
    if rk == "list-of-inf":
        if isinstance(kind, tuple) and kind[0] == "L" and kind[1] == "Num":
            return ("unspec",)
        rk = "list"
    if rk in ("fraction", "slash-zero", "percent"):
        rk = "word"
    if rk == "list-of-two-letter-words":
        # (a list of two-letter words is a list, never a tuple of key: value pairs; for other kinds it adds nothing to "list")
        return ("reject", PNV) if kind == "Tuple" else ("unspec",)
    if rk == "list-of-slash-zero":
        if isinstance(kind, tuple) and kind[0] == "L" and kind[1] == "Num":
            return ("reject", PNV)
        rk = "list"
    if kind == "Num":
        if rk in ("int", "float", "numstr", "zero"):
            return ("accept",)
        return ("reject", PNV)
    if kind == "Str":
        if rk in ("list", "nested", "tuple", "emptylist"):
            return ("unspec",)
        return ("accept",)
    if kind == "Bool":
        if rk in ("boolword", "zero"):
            return ("accept",)
        if rk in ("int", "float", "numstr"):
            return ("unspec",)
        return ("reject", PNV)
    if kind == "Path":
        if rk == "existing-path":
            return ("accept",)
        if rk in ("int", "float", "zero"):
            return ("unspec",)
        if rk in ("list", "nested", "tuple", "emptylist"):
            return ("reject", PNV + ("PathDoesNotExist",))
        return ("reject", ("PathDoesNotExist",))
    if kind == "PathNew":
        if rk in ("int", "float", "zero"):
            return ("unspec",)
        if rk in ("list", "nested", "tuple", "emptylist"):
            return ("reject", PNV)
        return ("accept",)
    if kind == "DType":
        if rk == "dtype-name":
            return ("accept",)
        return ("reject", PNV)
    if kind == "Tuple":
        if rk in ("tuple", "emptylist"):
            return ("accept",)
        return ("reject", PNV)
    if isinstance(kind, tuple) and kind[0] == "R":
        return _expect_ref(kind, rk)
    if isinstance(kind, tuple) and kind[0] == "L":
        inner = kind[1]
        if rk == "emptylist":
            return ("accept",)
        if rk == "tuple":
            return ("reject", PNV)
        if rk not in ("list", "nested"):
            return ("reject", PNV + ("ResultDoesNotExist",) if isinstance(inner, tuple) else PNV)
        if inner == "Num":
            return ("accept",) if rk == "list" else ("reject", PNV)
        if isinstance(inner, tuple) and inner[0] == "R":
            return ("reject", PNV)  # lists of numbers are not result names
        return ("unspec",)
    raise KeyError(kind)


def _expect_ref(kind, rk):
    _, outkind, fz = kind
    if rk in ("int", "float", "zero", "list", "nested", "emptylist", "tuple"):
        return ("reject", ("ParameterNotValid",))
    if rk in ("word", "boolword", "unknown", "numstr", "dtype-name", "existing-path"):
        return ("reject", ("ResultDoesNotExist",))
    prod = {"ref:nf": ("data", False), "ref:fz": ("data", True), "ref:bool": ("bool", False), "ref:writer": ("writer", False)}[rk]
    if fz == "fz" and not prod[1]:
        return ("reject", ("ResultNotFuzzy",))
    if fz == "nf" and prod[1]:
        return ("reject", ("ResultIsFuzzy",))
    if outkind == "data" and prod[0] != "data":
        return ("reject", ("ResultTypeNotValid",))
    return ("accept",)


# -----------------------------------------------------------------------------------------------------------

def _prefix(libset):
    q = lambda s: ("q", s)
    b = lambda s: ("bare", s)
    if libset == "csv":
        rd = lambda name: (name, "EEMSRead", [("InFileName", q("input.csv")), ("InFieldName", q(name))])
        wr = ("W", "EEMSWrite", [("OutFileName", q("w_out.csv")), ("OutFieldNames", ("list", [b("A")]))])
    else:
        rd = lambda name: (name, "EEMSRead", [("InFileName", q("input.nc")), ("InFieldName", q(name)), ("DataType", b("Float"))])
        wr = ("W", "EEMSWrite", [("OutFileName", q("w_out.nc")), ("OutFieldNames", ("list", [b("A")])), ("DimensionFileName", q("input.nc")),
                                 ("DimensionFieldName", q("A"))])
    return [rd("A"), rd("B"),
            ("AF", "CvtToFuzzy", [("InFieldName", b("A")), ("TrueThreshold", ("int", "10")), ("FalseThreshold", ("int", "2"))]),
            ("BF", "CvtToFuzzy", [("InFieldName", b("B")), ("TrueThreshold", ("int", "10")), ("FalseThreshold", ("int", "2"))]),
            ("PV", "PrintVars", [("InFieldNames", ("list", [b("A")])), ("OutFileName", q("pv_out.txt"))]), wr]


def _pyval(v):
    if isinstance(v, bool):
        return ("bare", "true" if v else "false")
    if isinstance(v, int):
        return ("int", str(v))
    if isinstance(v, float):
        return ("dec", repr(v))
    if isinstance(v, str):
        return ("bare", v) if G.bare_safe(v) else ("q", v)
    if isinstance(v, list):
        return ("list", [_pyval(x) for x in v])
    raise ValueError(v)


def _baseline(cmd, libset):
    """valid argument list of cmd as AST values: required parameters only"""
    table = SIG.table(libset)
    spec = table[cmd]
    b = lambda s: ("bare", s)
    if cmd in ("EEMSRead", "EEMSWrite"):
        return list(_prefix(libset)[0 if cmd == "EEMSRead" else 5][2])
    if cmd == "PrintVars":
        return [("InFieldNames", ("list", [b("A"), b("AF")]))]
    preset = D.presets_small(cmd, 2)[0] if cmd in SIG.COMMANDS else {}
    if cmd == "CvtToFuzzy":
        preset = {}
    args = []
    for name, kind, req in spec["params"]:
        if isinstance(kind, tuple) and kind[0] == "R":
            args.append((name, b("AF" if kind[2] == "fz" else "A")) if name != "B" else (name, b("B")))
        elif isinstance(kind, tuple) and kind[0] == "L" and isinstance(kind[1], tuple):
            args.append((name, ("list", [b("AF"), b("BF")] if kind[1][2] == "fz" else [b("A"), b("B")])))
        elif name in preset:
            args.append((name, _pyval(preset[name])))
        elif req:
            raise KeyError((cmd, name))
    return args


def _valid_value(kind):
    """a valid AST value for an optional parameter that the baseline omits"""
    return {"Num": ("int", "5"), "Str": ("bare", "LowToHigh"), "Bool": ("bare", "true"), "DType": ("bare", "Integer"), "Path": ("q", "input.csv"),
            "PathNew": ("q", "x_out.txt"), "Tuple": ("tuple", [("bare", "k", ("q", "v"))])}[kind]


def cases(tier):
    yield ("decl",)
    yield ("names",)
    for libset in ("csv", "netcdf"):
        for cmd in sorted(SIG.table(libset)):
            for name, kind, req in SIG.table(libset)[cmd]["params"] + [("Metadata", "Tuple", False)]:
                yield ("matrix", libset, cmd, name)
        for prod in sorted(SIG.table(libset)):
            yield ("pairing", libset, prod)
    for mi in range(len(c11.MODELS)):
        yield ("faults", mi)
    for cons1 in sorted(SIG.table("csv")):
        yield ("shared", cons1)
    for mi in range(len(c11.MODELS)):
        yield ("edited", mi)
    yield ("inplace",)


def _setup_dir(libset):
    work = snapshot.scratch_dir("c12_")
    with open(os.path.join(work, "input.csv"), "w") as f:
        f.write("A,B\n10,5\n8,2\n7,3\n5,10\n2,8\n")
    if libset == "netcdf":
        from netCDF4 import Dataset

        with Dataset(os.path.join(work, "input.nc"), "w") as ds:
            ds.createDimension("y", 2)
            ds.createDimension("x", 3)
            ds.createVariable("y", "f8", ("y",))[:] = [0.0, 1.0]
            ds.createVariable("x", "f8", ("x",))[:] = [0.0, 1.0, 2.0]
            ds.createVariable("A", "f8", ("y", "x"))[:] = numpy.array([[10.0, 8, 7], [5, 2, 9]])
            ds.createVariable("B", "f8", ("y", "x"))[:] = numpy.array([[5.0, 2, 3], [10, 8, 4]])
    return work


def _observe(text, libs, work):
    """load and run; -> dict(phase, cls, exc, executed, new_files)"""
    from mpilot.exceptions import MPilotError
    from mpilot.program import Program

    before = set(os.listdir(work))
    del _LOG[:]
    out = {"phase": "completed", "cls": None, "exc": None}
    try:
        with contextlib.redirect_stdout(io.StringIO()), numpy.errstate(all="ignore"):
            try:
                p = Program.from_source(text, libraries=libs, working_dir=work)
            except MPilotError as exc:
                out.update(phase="load", cls=type(exc).__name__, exc=exc)
                raise StopIteration
            try:
                p.run()
            except MPilotError as exc:
                out.update(phase="run", cls=type(exc).__name__, exc=exc)
    except StopIteration:
        pass
    except Exception as exc:
        out.update(phase="raw", cls=type(exc).__name__, exc=exc)
    out["executed"] = list(_LOG)
    out["new_files"] = sorted(set(os.listdir(work)) - before)
    for f in out["new_files"]:
        if os.path.isdir(os.path.join(work, f)):
            import shutil

            shutil.rmtree(os.path.join(work, f), ignore_errors=True)
        else:
            os.remove(os.path.join(work, f))
    return out


def _judge(exp, ob, viols, keybase, what, tag, n_commands=None):
    """compare an observation with an expectation; returns outcome label"""
    rejected_by_validation = ob["cls"] in VALIDATION
    if exp[0] == "unspec":
        if rejected_by_validation and (ob["executed"] or ob["new_files"]):
            viols.append(V("C12:%s:side-effect-before-reject" % keybase, "%s: rejected with %s after executing %r / creating %r" % (what, ob["cls"], ob["executed"][:3], ob["new_files"]), **tag))
            return "unspec:late-reject"
        return "unspec"
    if exp[0] == "accept":
        if rejected_by_validation:
            viols.append(V("C12:%s:rejected-wellformed:%s" % (keybase, ob["cls"]), "%s: well-formed model rejected with %s: %s" % (what, ob["cls"], str(ob["exc"]).split("\n")[0][:150]), **tag))
            return "bad"
        return "accept:" + (ob["cls"] or "completed")
    # must reject
    if not rejected_by_validation:
        viols.append(V("C12:%s:accepted-illformed" % keybase, "%s: ill-formed model not rejected (expected %s), outcome %s %s" % (what, "/".join(exp[1]), ob["phase"], ob["cls"]), **tag))
        return "bad"
    if ob["cls"] not in exp[1]:
        viols.append(V("C12:%s:wrong-error:%s" % (keybase, ob["cls"]), "%s: rejected with %s, expected %s" % (what, ob["cls"], "/".join(exp[1])), **tag))
        return "bad"
    if ob["executed"] or ob["new_files"]:
        viols.append(V("C12:%s:side-effect-before-reject" % keybase, "%s: rejected with %s only after executing %r / creating %r" % (what, ob["cls"], ob["executed"][:3], ob["new_files"]), **tag))
        return "bad"
    return "reject:" + ob["cls"]


def _kname(kind):
    if isinstance(kind, tuple):
        return kind[0] + "(" + ",".join(_kname(k) if isinstance(k, tuple) else str(k) for k in kind[1:]) + ")"
    return kind


def _run_matrix(case):
    _, libset, cmd, pname = case
    libs = CSV if libset == "csv" else NETCDF
    table = SIG.table(libset)
    plist = table[cmd]["params"] + [("Metadata", "Tuple", False)]
    kind, req = [(k, r) for n, k, r in plist if n == pname][0]
    work = _setup_dir(libset)
    _wrap_all()
    viols, outcomes = [], {}
    evals = judged = unspec = 0
    sample = None
    base = _baseline(cmd, libset)
    try:
        for rk in RAW_KINDS:
            args = [a for a in base if a[0] != pname]
            if rk == "missing":
                pass
            elif rk == "extra":
                args = list(base) + [("BogusParameter", ("int", "1"))]
            elif rk in ("extra-outfilename", "extra-newfieldname"):
                # the two bookkeeping arguments of EEMS 2.0 on a command that does not declare them (MPilot syntax: not stripped)
                xn = "OutFileName" if rk == "extra-outfilename" else "NewFieldName"
                if any(pn == xn for pn, _k, _r in plist) or pname != plist[0][0]:
                    continue
                args = list(base) + [(xn, ("q", "x_out.csv") if xn == "OutFileName" else ("bare", "Renamed"))]
            else:
                args = args + [(pname, _raw(rk))]
                if not any(a[0] == pname for a in base) and False:
                    pass
            if rk == "extra" and pname != plist[0][0]:
                continue  # one 'extra' case per command is enough
            prog = _prefix(libset) + [("T", cmd, args)]
            text = G.render(G.items_of(prog))[0]
            ob = _observe(text, libs, work)
            evals += 1
            exp = expect(kind, rk, req)
            # the writer of the pinned CSV library declares no output; after repair it is a non-data producer: either way not "data"
            tag = {"libraries": libset, "command": cmd, "parameter": pname, "declared": _kname(kind), "raw_kind": rk, "text": text}
            sample = tag
            what = "%s.%s (%s) given %s" % (cmd, pname, _kname(kind), rk)
            oc = _judge(exp, ob, viols, "%s:%s" % (_kname(kind), rk), what, tag)
            if exp[0] == "unspec":
                unspec += 1
            else:
                judged += 1
            # attribute of the error names the offender
            if oc.startswith("reject:") and ob["exc"] is not None:
                e = ob["exc"]
                if ob["cls"] == "MissingParameters" and (pname not in set(e.parameters) or e.command not in (cmd, "T")):  # the command may be named by its class or by its result name
                    viols.append(V("C12:%s:error-attribute:MissingParameters" % cmd, "%s: MissingParameters names %r of %r" % (what, e.parameters, e.command), **tag))
                if ob["cls"] == "NoSuchParameter" and (e.parameter != {"extra-outfilename": "OutFileName", "extra-newfieldname": "NewFieldName"}.get(rk, "BogusParameter") or e.command not in (cmd, "T")):
                    viols.append(V("C12:%s:error-attribute:NoSuchParameter" % cmd, "%s: NoSuchParameter names %r of %r" % (what, e.parameter, e.command), **tag))
                if ob["cls"] == "ResultDoesNotExist" and e.result != _raw(rk)[1]:
                    viols.append(V("C12:%s:error-attribute:ResultDoesNotExist" % cmd, "%s: ResultDoesNotExist names %r" % (what, e.result), **tag))
                if ob["cls"] in ("ResultNotFuzzy", "ResultIsFuzzy", "ResultTypeNotValid") and e.result != _raw(rk)[1]:
                    viols.append(V("C12:%s:error-attribute:%s" % (cmd, ob["cls"]), "%s: %s names %r" % (what, ob["cls"], e.result), **tag))
            k = "%s:%s" % (_kname(kind).split("(")[0], oc)
            outcomes[k] = outcomes.get(k, 0) + 1
            # the same command written under its EEMS 2.0 NAME (a file that goes through the EEMS 2.0 conversion): the conversion renames,
            # it does not repair arguments - same verdict, before anything runs
            from mpilot.utils import EEMS_COMMANDS
            old_names = sorted(o for o, n_ in EEMS_COMMANDS.items() if n_ == cmd)
            if old_names and rk not in ("extra-outfilename", "extra-newfieldname") and not any(pn in ("OutFileName", "NewFieldName") for pn, _k, _r in plist):
                prog2 = _prefix(libset) + [("T", old_names[0], args)]
                text2 = G.render(G.items_of(prog2))[0]
                ob2 = _observe(text2, libs, work)
                evals += 1
                tag2 = dict(tag, text=text2, written_as=old_names[0])
                _judge(exp, ob2, viols, "%s:%s:eems2-name" % (_kname(kind), rk), what + " written as " + old_names[0], tag2)
                if exp[0] != "unspec":
                    judged += 1
    finally:
        import shutil
        shutil.rmtree(work, ignore_errors=True)
    return {"evals": max(evals, 1), "nontrivial": evals, "judged": judged, "unspecified": unspec, "viols": viols, "outcomes": outcomes, "sample": sample}


def _run_pairing(case):
    _, libset, prod = case
    libs = CSV if libset == "csv" else NETCDF
    table = SIG.table(libset)
    work = _setup_dir(libset)
    _wrap_all()
    viols, outcomes = [], {}
    evals = judged = unspec = 0
    sample = None
    pkind, pfz = table[prod]["out"]
    try:
        pargs = _baseline(prod, libset)
        if prod == "EEMSWrite":
            pargs = [(n, (("q", "prod_out" + os.path.splitext(v[1])[1]) if n == "OutFileName" else v)) for n, v in pargs]
        if prod == "EEMSRead":
            pass
        for cons in sorted(table):
            for slot, is_list, outkind, fz in SIG.result_slots(cons, libset):
                cargs = []
                for n, v in _baseline(cons, libset):
                    if n == slot:
                        v = ("list", [("bare", "P")] + v[1][1:]) if is_list else ("bare", "P")
                    if cons == "EEMSWrite" and n == "OutFileName":
                        v = ("q", "cons_out" + os.path.splitext(v[1])[1])
                    if cons == "PrintVars" and n == "InFieldNames":
                        v = ("list", [("bare", "P")])
                    cargs.append((n, v))
                prog = _prefix(libset) + [("P", prod, pargs), ("T", cons, cargs)]
                text = G.render(G.items_of(prog))[0]
                ob = _observe(text, libs, work)
                evals += 1
                if fz == "fz" and not pfz:
                    exp = ("reject", ("ResultNotFuzzy",))
                elif fz == "nf" and pfz:
                    exp = ("reject", ("ResultIsFuzzy",))
                elif outkind == "data" and pkind != "data":
                    exp = ("reject", ("ResultTypeNotValid",))
                else:
                    exp = ("accept",)
                tag = {"libraries": libset, "producer": prod, "consumer": cons, "slot": slot, "text": text}
                sample = tag
                what = "result of %s fed to %s.%s" % (prod, cons, slot)
                oc = _judge(exp, ob, viols, "pair:%s->%s" % (prod, "list-slot" if is_list else "slot"), what, tag)
                judged += 1
                k = "pair:%s" % oc
                outcomes[k] = outcomes.get(k, 0) + 1
    finally:
        import shutil
        shutil.rmtree(work, ignore_errors=True)
    return {"evals": max(evals, 1), "nontrivial": evals, "judged": judged, "viols": viols, "outcomes": outcomes, "sample": sample}


def _run_shared(case):
    """one producer consumed by TWO commands: every producer class x every ordered pair of consumer slots (file order = pair order)"""
    _, cons1 = case
    libset, libs = "csv", CSV
    table = SIG.table(libset)
    work = _setup_dir(libset)
    _wrap_all()
    viols, outcomes = [], {}
    evals = judged = 0
    sample = None
    producers = {"A": ("data", False), "AF": ("data", True), "PV": ("bool", False)}

    def slot_exp(outkind, fz, prod):
        pkind, pfz = producers[prod]
        if fz == "fz" and not pfz:
            return ("ResultNotFuzzy",)
        if fz == "nf" and pfz:
            return ("ResultIsFuzzy",)
        if outkind == "data" and pkind != "data":
            return ("ResultTypeNotValid",)
        return None

    def cargs(cons, slot, is_list, prod, tag):
        out = []
        for n, v in _baseline(cons, libset):
            if n == slot:
                v = ("list", [("bare", prod)] + v[1][1:]) if is_list else ("bare", prod)
            if n == "OutFileName":
                v = ("q", "shared_%s%s" % (tag, os.path.splitext(v[1])[1]))
            if cons == "PrintVars" and n == "InFieldNames":
                v = ("list", [("bare", prod)])
            out.append((n, v))
        return out

    try:
        for slot1, l1, k1, f1 in SIG.result_slots(cons1, libset):
            for cons2 in sorted(table):
                for slot2, l2, k2, f2 in SIG.result_slots(cons2, libset):
                    for prod in producers:
                        e1, e2 = slot_exp(k1, f1, prod), slot_exp(k2, f2, prod)
                        prog = _prefix(libset) + [("T1", cons1, cargs(cons1, slot1, l1, prod, "1")), ("T2", cons2, cargs(cons2, slot2, l2, prod, "2"))]
                        text = G.render(G.items_of(prog))[0]
                        ob = _observe(text, libs, work)
                        evals += 1
                        judged += 1
                        classes = tuple(x[0] for x in (e1, e2) if x)
                        exp = ("reject", classes) if classes else ("accept",)
                        tag = {"producer": prod, "first_consumer": "%s.%s" % (cons1, slot1), "second_consumer": "%s.%s" % (cons2, slot2), "text": text}
                        sample = tag
                        which = "none-faulty" if not classes else ("both-faulty" if e1 and e2 else ("first-faulty" if e1 else "second-faulty"))
                        oc = _judge(exp, ob, viols, "shared-producer:%s:%s" % (producers[prod][0] + ("-fuzzy" if producers[prod][1] else ""), which),
                                    "%s consumed by %s.%s then %s.%s" % (prod, cons1, slot1, cons2, slot2), tag)
                        k = "shared:%s:%s" % (which, oc)
                        outcomes[k] = outcomes.get(k, 0) + 1
            if len(viols) > 40:
                del viols[40:]
    finally:
        import shutil
        shutil.rmtree(work, ignore_errors=True)
    return {"evals": max(evals, 1), "nontrivial": evals, "judged": judged, "viols": viols, "outcomes": outcomes, "sample": sample}


def _run_edited(case):
    """acceptance depends on the CURRENT model only: load, run, edit through the documented API (del program.commands[x], add_command), run
    again; the outcome must equal the outcome of a fresh program that received the same edit before its first run"""
    from mpilot.exceptions import MPilotError
    from mpilot.program import Program

    _, mi = case
    work = _setup_dir("csv")
    with open(os.path.join(work, "input.csv"), "w") as f:
        f.write("A,B\n10,5\n8,-9999\n7,3\n5,10\n2,8\n")
    _wrap_all()
    model = c11.MODELS[mi]
    text = G.render(G.items_of(model))[0]
    names = [c[0] for c in model]
    reads = [c[0] for c in model if c[1] == "EEMSRead"]
    viols, outcomes = [], {}
    evals = judged = 0
    sample = None

    def edits():
        for x in names:
            yield ("del", x)
            base = [r for r in reads if r != x]
            if base:
                yield ("replace-by-nonfuzzy", x, base[0])
                yield ("replace-by-fuzzy", x, base[0])
        yield ("add-consumer-of-missing", "NoSuchResult")
        yield ("nothing",)

    GOOD = "A,B\n10,5\n8,-9999\n7,3\n5,10\n2,8\n"

    def apply(p, e):
        lib = p.command_library
        if e[0] == "nothing":
            return
        if e[0] == "del":
            del p.commands[e[1]]
        elif e[0] == "replace-by-nonfuzzy":
            del p.commands[e[1]]
            p.add_command(lib["Copy"], e[1], {"InFieldName": e[2]})
        elif e[0] == "replace-by-fuzzy":
            del p.commands[e[1]]
            p.add_command(lib["CvtToFuzzy"], e[1], {"InFieldName": e[2], "TrueThreshold": 10, "FalseThreshold": 0})
        else:
            p.add_command(lib["Copy"], "Extra", {"InFieldName": e[1]})

    def run_it(p):
        before = set(os.listdir(work))
        del _LOG[:]
        out = None
        try:
            with contextlib.redirect_stdout(io.StringIO()), numpy.errstate(all="ignore"):
                p.run()
        except MPilotError as exc:
            out = type(exc).__name__
        except Exception as exc:
            out = "raw:" + type(exc).__name__
        executed = sorted({r for _, r in _LOG})
        new_files = sorted(set(os.listdir(work)) - before)
        for f_ in new_files:
            snapshot.remove_path(os.path.join(work, f_))
        return out, executed, new_files

    try:
        for first in ("run", "run-rejected", "run-failed-on-data", "none"):
            for e in edits():
                # fresh: edit before the first run
                pf = Program.from_source(text, libraries=CSV, working_dir=work)
                try:
                    apply(pf, e)
                except MPilotError as exc:
                    continue
                want, _, _ = run_it(pf)
                # history: (run | rejected run | nothing), then the same edit, then run
                ph = Program.from_source(text, libraries=CSV, working_dir=work)
                if first == "run":
                    run_it(ph)
                elif first == "run-rejected":
                    ph.add_command(ph.command_library["Copy"], "Tmp", {"InFieldName": "NotThere"})
                    run_it(ph)
                    del ph.commands["Tmp"]
                elif first == "run-failed-on-data":
                    # a run that fails for a reason OUTSIDE the model (non-numeric cells in the data file), then the file is repaired
                    with open(os.path.join(work, "input.csv"), "w") as f:
                        f.write(GOOD.replace("8,-9999", "n/a,x"))
                    run_it(ph)
                    with open(os.path.join(work, "input.csv"), "w") as f:
                        f.write(GOOD)
                apply(ph, e)
                got, executed, new_files = run_it(ph)
                evals += 2
                judged += 1
                tag = {"model": mi, "history": [first, list(e)], "text": text}
                sample = tag
                if got != want:
                    viols.append(V("C12:edited-model:outcome-depends-on-history:%s" % e[0], "after %s + %r the second run() gave %r, a fresh program with the same edit gives %r" % (
                        first, e, got, want), **tag))
                elif got in VALIDATION and first != "run" and (executed or new_files):
                    viols.append(V("C12:edited-model:side-effect-before-reject", "rejected with %s after executing %r" % (got, executed[:3]), **tag))
                k = "edited:%s:%s" % (e[0], got)
                outcomes[k] = outcomes.get(k, 0) + 1
    finally:
        import shutil
        shutil.rmtree(work, ignore_errors=True)
    return {"evals": max(evals, 1), "nontrivial": judged, "judged": judged, "viols": viols[:40], "outcomes": outcomes, "sample": sample}


def _run_faults(case):
    _, mi = case
    work = _setup_dir("csv")
    with open(os.path.join(work, "input.csv"), "w") as f:
        f.write("A,B\n10,5\n8,-9999\n7,3\n5,10\n2,8\n")
    _wrap_all()
    viols, outcomes = [], {}
    evals = judged = 0
    sample = None
    model = c11.MODELS[mi]
    try:
        ob = _observe(G.render(G.items_of(model))[0], CSV, work)
        evals += 1
        if ob["cls"] is not None:
            viols.append(V("C12:faults:valid-model-fails", "the unmodified model %d fails with %s: %s" % (mi, ob["cls"], ob["exc"]), model=mi))
        elif len({r for _, r in ob["executed"]}) != len(model):
            viols.append(V("C12:faults:valid-model-partial", "the unmodified model %d executed %d of %d commands" % (mi, len(ob["executed"]), len(model)), model=mi))
        variants = []
        for flt in c11._faults(model):
            variants.append(flt)
            fm = flt[1]
            if any(c[1] == "EEMSWrite" for c in fm):
                # the same fault in a model whose output goes to a folder that does not exist (yet): rejecting must not create it
                fm2 = [(r, n, [(an, ("q", "newdir/deeper/out.csv")) if (n == "EEMSWrite" and an == "OutFileName") else (an, v) for an, v in a]) for r, n, a in fm]
                variants.append((flt[0] + ":output-folder-missing", fm2) + tuple(flt[2:]))
        for fname, fm, (ci, ai), classes, level in variants:
            text = G.render(G.items_of(fm))[0]
            ob = _observe(text, CSV, work)
            evals += 1
            tag = {"fault": fname, "at": [ci, ai], "text": text}
            sample = tag
            if level == "execute":
                # not a validation rejection: the error comes from inside execute (or the recursion guard)
                outcomes["execute-fault:%s:%s" % (fname, ob["cls"])] = outcomes.get("execute-fault:%s:%s" % (fname, ob["cls"]), 0) + 1
                continue
            judged += 1
            oc = _judge(("reject", classes), ob, viols, "fault:" + fname, "fault %s at command %d" % (fname, ci), tag)
            if oc.startswith("reject:"):
                e = ob["exc"]
                res, name, args = fm[ci]
                bad = None
                if ob["cls"] == "CommandDoesNotExist" and e.name != name:
                    bad = ("name", e.name, name)
                if ob["cls"] == "DuplicateResult" and e.result != res:
                    bad = ("result", e.result, res)
                if ob["cls"] == "MissingParameters" and e.command not in (name, res):
                    bad = ("command", e.command, name)
                if ob["cls"] == "NoSuchParameter" and (e.command not in (name, res) or not (e.parameter.startswith("Bogus") or e.parameter == "Extra")):
                    bad = ("parameter", (e.command, e.parameter), name)
                if ob["cls"] == "ResultDoesNotExist" and e.result not in ("Dangling", "notalist"):
                    bad = ("result", e.result, "Dangling")
                if ob["cls"] == "ParameterNotValid" and str(e.value) not in ("notalist", "notanumber", "word"):
                    bad = ("value", e.value, "the offending value")
                if ob["cls"] == "PathDoesNotExist" and not str(e.path).endswith("missing_file.csv"):
                    bad = ("path", e.path, "missing_file.csv")
                if bad:
                    viols.append(V("C12:fault:%s:error-attribute" % fname, "%s: error attribute %s is %r, offender is %r" % (ob["cls"], bad[0], bad[1], bad[2]), **tag))
            outcomes["fault:%s:%s" % (fname, oc)] = outcomes.get("fault:%s:%s" % (fname, oc), 0) + 1
    finally:
        import shutil
        shutil.rmtree(work, ignore_errors=True)
    return {"evals": evals, "nontrivial": evals, "judged": judged, "viols": viols, "outcomes": outcomes, "sample": sample}


def _run_decl():
    from mpilot import params as P
    from mpilot.program import Program

    viols = []
    n = 0
    for libset, libs in (("csv", CSV), ("netcdf", NETCDF)):
        lib = Program(libraries=libs).command_library
        table = SIG.table(libset)
        if set(lib) != set(table):
            viols.append(V("C12:decl:command-set:" + libset, "library commands differ from the reference table: missing %r extra %r" % (sorted(set(table) - set(lib)), sorted(set(lib) - set(table)))))
        for cmd in sorted(set(lib) & set(table)):
            cls = lib[cmd]
            n += 1
            want = {name: (kind, req) for name, kind, req in table[cmd]["params"]}
            want["Metadata"] = ("Tuple", False)
            live = cls.inputs
            if set(live) != set(want):
                viols.append(V("C12:decl:%s:parameter-names" % cmd, "%s declares %r, reference %r" % (cmd, sorted(live), sorted(want)), command=cmd))
                continue
            for name, (kind, req) in want.items():
                par = live[name]
                if bool(par.required) != bool(req):
                    viols.append(V("C12:decl:%s:required-flag" % cmd, "%s.%s required=%r, reference %r" % (cmd, name, par.required, req), command=cmd))
                if not _kind_matches(kind, par, P):
                    viols.append(V("C12:decl:%s:parameter-kind" % cmd, "%s.%s is %s, reference kind %s" % (cmd, name, _describe(par, P), _kname(kind)), command=cmd))
            if bool(getattr(cls, "is_fuzzy", False)) != table[cmd]["out"][1]:
                viols.append(V("C12:decl:%s:fuzziness" % cmd, "%s is_fuzzy=%r, reference %r" % (cmd, getattr(cls, "is_fuzzy", False), table[cmd]["out"][1]), command=cmd))
            outk = table[cmd]["out"][0]
            live_out = cls.output
            ok = (outk == "data" and isinstance(live_out, P.DataParameter)) or (outk == "bool" and isinstance(live_out, P.BooleanParameter)) or \
                 (outk == "none" and (live_out is None or not isinstance(live_out, P.DataParameter)))
            if not ok:
                viols.append(V("C12:decl:%s:output-kind" % cmd, "%s declares output %r, reference %s" % (cmd, live_out, outk), command=cmd))
    return {"evals": n, "nontrivial": n, "judged": n, "viols": viols, "outcomes": {"decl:" + ("ok" if not viols else "bad"): 1}, "sample": {"declarations_compared": n}}


def _describe(par, P):
    d = type(par).__name__
    if isinstance(par, P.ListParameter):
        d += "[" + _describe(par.value_type, P) + "]"
    if isinstance(par, P.ResultParameter):
        d += "(out=%s, fuzzy=%r)" % (type(par.output_type).__name__ if par.output_type is not None else None, par.is_fuzzy)
    if isinstance(par, P.PathParameter):
        d += "(must_exist=%r)" % par.must_exist
    return d


def _kind_matches(kind, par, P):
    if kind == "Num":
        return type(par) is P.NumberParameter
    if kind == "Str":
        return type(par) is P.StringParameter
    if kind == "Bool":
        return type(par) is P.BooleanParameter
    if kind == "Path":
        return type(par) is P.PathParameter and par.must_exist
    if kind == "PathNew":
        return type(par) is P.PathParameter and not par.must_exist
    if kind == "DType":
        return type(par) is P.DataTypeParameter
    if kind == "Tuple":
        return type(par) is P.TupleParameter
    if kind[0] == "R":
        if type(par) is not P.ResultParameter:
            return False
        want_fz = {"fz": True, "nf": False, "*": None}[kind[2]]
        if par.is_fuzzy is not want_fz:
            return False
        return isinstance(par.output_type, P.DataParameter) if kind[1] == "data" else par.output_type is None
    if kind[0] == "L":
        return type(par) is P.ListParameter and _kind_matches(kind[1], par.value_type, P)
    return False


NAMES = ["Slope Pct", "Elev.m", "2020", "Slope-Pct", "a,b", "caf\u00e9", "class", "x y z", "A+B", "_", "9lives", "T"]


def _run_names():
    """result names are whatever the user (or the header of a data file) says: every name of NAMES as the result of a reader built through
    the API, consumed by name and by object; and as the field name of an EEMS 2.0 READ / a quoted reference - a well-formed model is accepted"""
    from mpilot.exceptions import MPilotError
    from mpilot.program import Program

    work = _setup_dir("csv")
    viols, outcomes = [], {}
    evals = 0
    sample = None
    try:
        for nm in NAMES:
            import csv as _csv

            with open(os.path.join(work, "names.csv"), "w", newline="") as f:
                w = _csv.writer(f)
                w.writerow([nm, "other"])
                for r in ((10, 5), (8, 2), (7, 3)):
                    w.writerow(r)
            variants = []
            # API: the name is the result name of a reader; one consumer names it, one holds the command object
            def api():
                p = Program(libraries=CSV, working_dir=work)
                lib = p.command_library
                p.add_command(lib["EEMSRead"], nm, {"InFileName": "names.csv", "InFieldName": nm})
                p.add_command(lib["Copy"], "byname", {"InFieldName": nm})
                p.add_command(lib["Sum"], "byobject", {"InFieldNames": [p.commands[nm], p.commands[nm]]})
                return p
            variants.append(("api", api))
            # EEMS 2.0 text: the field name becomes the result name
            text = G.render(G.items_of([(None, "READ", [("InFileName", ("q", "names.csv")), ("InFieldName", ("q", nm))]),
                                        (None, "COPYFIELD", [("InFieldName", ("q", nm)), ("NewFieldName", ("bare", "Copied"))])]))[0]
            variants.append(("eems2", lambda text=text: Program.from_source(text, libraries=CSV, working_dir=work)))
            for how, build in variants:
                evals += 1
                tag = {"result_name": nm, "built": how, "text": text if how == "eems2" else None}
                sample = tag
                try:
                    with contextlib.redirect_stdout(io.StringIO()), numpy.errstate(all="ignore"):
                        p = build()
                        p.run()
                    ok = all(c.is_finished for c in p.commands.values()) and nm in p.commands
                    if not ok:
                        viols.append(V("C12:names:not-all-finished:%s" % how, "model with the result name %r ran but %r" % (nm, sorted(p.commands)), **tag))
                    outcomes["names:%s:accepted" % how] = outcomes.get("names:%s:accepted" % how, 0) + 1
                except MPilotError as exc:
                    viols.append(V("C12:names:rejected-wellformed:%s:%s" % (how, type(exc).__name__), "well-formed model with the result name %r rejected: %s" % (nm, str(exc).split("\n")[0][:150]), **tag))
                except SyntaxError as exc:
                    outcomes["names:%s:syntax-error" % how] = outcomes.get("names:%s:syntax-error" % how, 0) + 1
                except Exception as exc:
                    viols.append(V("C12:names:raw-exception:%s" % type(exc).__name__, "model with the result name %r raised %r" % (nm, exc), **tag))
    finally:
        import shutil
        shutil.rmtree(work, ignore_errors=True)
    return {"evals": evals, "nontrivial": evals, "judged": evals, "viols": viols[:20], "outcomes": outcomes, "sample": sample}


def _run_inplace(case):
    """models that READ a file which another command of the same model WRITES (an in-place update, a staged file read back): when that file
    does not exist the model is rejected (PathDoesNotExist) before anything executes or is written, in every order of the commands, whether the
    writer consumes the reader or not, next to independent commands that could run; when it exists the model is accepted"""
    import itertools

    b = lambda s_: ("bare", s_)
    q = lambda s_: ("q", s_)
    viols, outcomes = [], {}
    evals = judged = 0
    distinct = set()
    sample = None
    work = _setup_dir("csv")
    try:
        for writer_consumes_reader in (True, False):
            for writer in ("EEMSWrite", "PrintVars"):
                for present in (False, True):
                    cmds = [("Base", "EEMSRead", [("InFileName", q("input.csv")), ("InFieldName", b("A"))]),
                            ("Log", "PrintVars", [("InFieldNames", ("list", [b("Base")])), ("OutFileName", q("log.txt"))]),
                            ("Staged", "EEMSRead", [("InFileName", q("stage.csv")), ("InFieldName", b("A"))]),
                            ("Fz", "CvtToFuzzy", [("InFieldName", b("Staged")), ("TrueThreshold", ("int", "10")), ("FalseThreshold", ("int", "0"))])]
                    src = "Staged" if writer_consumes_reader else "Base"
                    if writer == "EEMSWrite":
                        cmds.append(("Out", "EEMSWrite", [("OutFileName", q("stage.csv")), ("OutFieldNames", ("list", [b(src)]))]))
                    else:
                        cmds.append(("Out", "PrintVars", [("InFieldNames", ("list", [b(src)])), ("OutFileName", q("stage.csv"))]))
                    for order in itertools.permutations(range(len(cmds))):
                        if present:
                            if order != tuple(range(len(cmds))) and order != tuple(reversed(range(len(cmds)))):
                                continue
                            with open(os.path.join(work, "stage.csv"), "w") as f:
                                f.write("A\n1\n2\n3\n4\n5\n")
                        elif os.path.exists(os.path.join(work, "stage.csv")):
                            os.remove(os.path.join(work, "stage.csv"))
                        text = G.render(G.items_of([cmds[i] for i in order]))[0]
                        ob = _observe(text, CSV, work)
                        evals += 1
                        judged += 1
                        distinct.add(text)
                        tag = {"text": text, "stage_file_exists": present, "writer": writer, "writer_consumes_reader": writer_consumes_reader}
                        sample = tag
                        what = "read of a file that %s written by the model itself (%s)" % ("exists and is" if present else "does not exist and is", writer)
                        oc = _judge(("accept",) if present else ("reject", ("PathDoesNotExist",)), ob, viols, "inplace", what, tag, len(cmds))
                        if not present and ob["cls"] in VALIDATION and (ob["executed"] or ob["new_files"]):
                            viols.append(V("C12:inplace:side-effect-before-reject", "%s: rejected with %s after executing %r / creating %r" % (what, ob["cls"], ob["executed"][:3], ob["new_files"]), **tag))
                            oc = "bad"
                        outcomes["inplace:%s" % oc] = outcomes.get("inplace:%s" % oc, 0) + 1
    finally:
        import shutil
        shutil.rmtree(work, ignore_errors=True)
    return {"evals": evals, "nontrivial": len(distinct), "judged": judged, "viols": viols[:20], "outcomes": outcomes, "sample": sample}


def run(case):
    case = tuple(case)
    if case[0] == "names":
        return _run_names()
    if case[0] == "decl":
        return _run_decl()
    if case[0] == "matrix":
        return _run_matrix(case)
    if case[0] == "pairing":
        return _run_pairing(case)
    if case[0] == "shared":
        return _run_shared(case)
    if case[0] == "edited":
        return _run_edited(case)
    if case[0] == "inplace":
        return _run_inplace(case)
    return _run_faults(case)
