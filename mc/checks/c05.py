"""C05 — results keep the input shape; cells are computed independently.

Every data command x presets x arities x {with, without a missing cell}: a fixed multiset of 4 distinct cells arranged in EVERY
one of the 10 shapes of size 4 (rank 1-3 incl. length-1 axes) and EVERY one of the 24 cell permutations (inputs of n-ary commands
permuted jointly); likewise 6 cells / the shapes of size 6 / cyclic shifts + reversal (thorough: all 720 permutations).
Memory layouts: C-ordered, Fortran-ordered, transposed view, strided view (identical logical cells).
Oracle: result.shape == input shape; result of the rearranged inputs == the same rearrangement of the base result.
"""
import itertools
from fractions import Fraction as F

import numpy

from ..core import V
from .. import numdrv as D
from ..ref import sig as SIG

ID = "C05"
LEVEL = "exploration"
CHUNK = 1
RULE = ("cases = (command, n, preset, dtype, missing variant, size); each runs the base arrangement and every (shape, permutation) "
        "rearrangement; non-trivial = distinct (command, preset, dtype, shape, permutation) rearrangements other than the base")
ASSUMPTIONS = ["statistics-based commands compared to 1e-12 relative (summation order), all others bit-exact"]
STAT = ("Normalize", "NormalizeZScore", "NormalizeMeanToMid", "NormalizeCurveZScore", "CvtToFuzzy", "CvtToFuzzyZScore",
        "CvtToFuzzyMeanToMid", "CvtToFuzzyCurveZScore")
NF4 = [[F(-1), F(1, 2), F(2), F(5)], [F(3, 2), F(0), F(-2), F(1)], [F(1, 4), F(5), F(-1), F(2)]]
FZ4 = [[F(-1), F(-1, 4), F(1, 2), F(1)], [F(3, 4), F(0), F(-1), F(1, 4)], [F(1, 2), F(1), F(-3, 4), F(-1, 2)]]
I4 = [[F(-1), F(0), F(2), F(5)], [F(1), F(-2), F(0), F(2)], [F(5), F(1), F(-1), F(0)]]
NF6 = [r + [F(0 + i), F(-3, 2)] for i, r in enumerate(NF4)]
FZ6 = [r + [F(-1, 2) + F(i, 4), F(0)] for i, r in enumerate(FZ4)]
I6 = [r + [F(3 + i), F(-2)] for i, r in enumerate(I4)]


def BOUND(tier):
    return ("size 4: 10 shapes x 24 permutations; size 6: all rank<=3 shapes x (6 cyclic shifts + reversal)" +
            ("" if tier == "quick" else "; thorough: size 6 all 720 permutations on shapes (6,), (2,3), (3,2), (1,6,1), (2,1,3)"))


def cases(tier):
    for size in (4, 6):
        yield ("ncread", size)
    for cmd in SIG.DATA_COMMANDS:
        for n in D.arities(cmd):
            yield ("large", cmd, n)
    for cmd in SIG.DATA_COMMANDS:
        dts0 = ("float",) if SIG.input_fuzz(cmd) == "fz" else ("float", "int")
        for n in D.arities(cmd):
            dts = dts0 + (("float32",) if n <= 2 else ())
            for pi in range(len(D.presets_small(cmd, n))):
                for dt in dts:
                    for miss in (0, 1) + ((2,) if SIG.input_fuzz(cmd) == "fz" and dt == "float" else ()):
                        for size in (4, 6):
                            yield (cmd, n, pi, dt, miss, size, tier)


def _run_ncread(case):
    """the same cells stored in NetCDF files as variables of EVERY shape of the size, with fixed dimensions and with the leading dimension declared
    as the record (unlimited) dimension, with and without a missing cell: the real NetCDF EEMSRead and two commands downstream return arrays of
    exactly the stored shape, holding the result for the plain vector, reshaped"""
    import os
    import shutil
    from netCDF4 import Dataset
    from mpilot.program import Program
    from .. import snapshot

    _, size = case
    work = snapshot.scratch_dir("c05_")
    viols, outcomes = [], {}
    evals = judged = 0
    sample = None
    vals = [1.0, 4.0, 2.5, 0.0, 3.0, 1.5][:size]
    libs = ("mpilot.libraries.eems.netcdf", "mpilot.libraries.eems.basic", "mpilot.libraries.eems.fuzzy")
    try:
        for miss in (None, 1):
            base = None
            for shape in [(size,)] + [s_ for s_ in D.shapes_of(size) if s_ != (size,)]:
                for record in (False, True):
                    names = ("t", "y", "x")[-len(shape):]
                    path = os.path.join(work, "l.nc")
                    snapshot.remove_path(path)
                    with Dataset(path, "w") as ds:
                        for i, (nm, sz) in enumerate(zip(names, shape)):
                            ds.createDimension(nm, None if (record and i == 0) else sz)
                            ds.createVariable(nm, "f8", (nm,))[:] = numpy.arange(sz)
                        data = numpy.ma.MaskedArray(numpy.array(vals), mask=[i == miss for i in range(size)]).reshape(shape)
                        ds.createVariable("layer", "f8", names, fill_value=-9999.0)[:] = data
                    p = Program(libraries=libs, working_dir=work)
                    p.add_command(p.find_command_class("EEMSRead"), "Layer", {"InFileName": "l.nc", "InFieldName": "layer"})
                    p.add_command(p.find_command_class("CvtToFuzzy"), "Fz", {"InFieldName": p.commands["Layer"], "TrueThreshold": 4, "FalseThreshold": 0})
                    p.add_command(p.find_command_class("FuzzyNot"), "Neg", {"InFieldName": p.commands["Fz"]})
                    evals += 1
                    judged += 1
                    tag = {"stored_shape": list(shape), "leading_dimension_unlimited": record, "missing_cell": miss, "values": vals}
                    sample = tag
                    kind = "rank%d:%s" % (len(shape), "record" if record else "fixed")
                    try:
                        with numpy.errstate(all="ignore"):
                            got = {nm: p.commands[nm].result for nm in ("Layer", "Fz", "Neg")}
                    except Exception as exc:
                        viols.append(V("C05:ncread:raised:%s" % type(exc).__name__, "reading a stored %r variable (%s) raised %s" % (shape, kind, str(exc).split("\n")[0][:160]), **tag))
                        continue
                    if base is None:
                        base = got
                    ok = True
                    for nm in ("Layer", "Fz", "Neg"):
                        r = got[nm]
                        if tuple(r.shape) != tuple(shape):
                            viols.append(V("C05:ncread:shape-changed:%s" % kind, "%s has shape %r for a stored variable of shape %r" % (nm, tuple(r.shape), shape), **tag))
                            ok = False
                            break
                        b = base[nm].reshape(shape)
                        if (numpy.ma.getmaskarray(r) != numpy.ma.getmaskarray(b)).any() or not numpy.array_equal(numpy.ma.filled(r, 0), numpy.ma.filled(b, 0)):
                            viols.append(V("C05:ncread:not-equivariant:%s" % kind, "%s for the stored shape %r differs from the result for the vector, reshaped" % (nm, shape), **tag))
                            ok = False
                            break
                    outcomes["ncread:%s:%s" % (kind, "ok" if ok else "bad")] = outcomes.get("ncread:%s:%s" % (kind, "ok" if ok else "bad"), 0) + 1
    finally:
        shutil.rmtree(work, ignore_errors=True)
    return {"evals": evals, "nontrivial": judged, "judged": judged, "viols": viols[:30], "outcomes": outcomes, "sample": sample}


def _run_large(case):
    """named LARGE sizes (2^16+17 cells as a vector, 257x256 and 300x250 as grids): rearranging the cells of all inputs alike (reversal,
    rotation, one fixed scrambling) rearranges the result alike; the grid result is the vector result reshaped"""
    _, cmd, n = case
    fz = SIG.input_fuzz(cmd) == "fz"
    lat = numpy.array([-1.0, -0.5, 0.0, 0.25, 0.75, 1.0] if fz else [-2.0, 0.0, 0.25, 1.0, 3.0, 5.0, 7.5])
    viols, outcomes = [], {}
    evals = judged = 0
    sample = None
    tol = 1e-9 if cmd in STAT else 0.0
    for size, grid in ((65536 + 17, None), (257 * 256, (257, 256)), (75000, (300, 250))):
        idx = numpy.arange(size)
        cols = []
        for i in range(n):
            v = lat[(idx * (7 + 2 * i) + 3 * i + idx // 1000) % len(lat)]
            m = (idx % 17) == (i + 3)
            cols.append(numpy.ma.MaskedArray(v.copy(), mask=m))
        perms = [("reversed", idx[::-1].copy()), ("rotated", numpy.roll(idx, 30011)), ("scrambled", numpy.random.RandomState(12345).permutation(size))]
        for params in D.presets_small(cmd, n):
            base = D.execute(cmd, [numpy.ma.MaskedArray(c.data.copy(), mask=c.mask.copy()) for c in cols], params)
            evals += 1
            tag0 = {"cmd": cmd, "params": params, "cells": size}
            sample = tag0
            if base[0] == "err" or not isinstance(base[1], numpy.ndarray) or base[1].shape != (size,):
                if base[0] != "err":
                    viols.append(V("C05:%s:shape-changed:large" % cmd, "%s returned shape %r for vectors of %d cells" % (cmd, getattr(base[1], "shape", None), size), **tag0))
                outcomes["%s:large:err" % cmd] = outcomes.get("%s:large:err" % cmd, 0) + 1
                continue
            bm = numpy.ma.getmaskarray(base[1])
            bd = numpy.where(bm, 0.0, numpy.ma.getdata(base[1]).astype(float))
            variants = [(name, pm, None) for name, pm in perms]
            if grid is not None:
                variants.append(("grid", idx, grid))
            for name, pm, shape in variants:
                arrays = [numpy.ma.MaskedArray(c.data[pm].copy(), mask=c.mask[pm].copy()) for c in cols]
                if shape is not None:
                    arrays = [a.reshape(shape) for a in arrays]
                res = D.execute(cmd, arrays, params)
                evals += 1
                judged += 1
                tag = dict(tag0, rearrangement=name, shape=list(shape) if shape else [size])
                if res[0] == "err":
                    viols.append(V("C05:%s:raised:%s:large" % (cmd, D.error_name(res[1])), "%s fails on the %s arrangement of %d cells but works on the base arrangement" % (cmd, name, size), **tag))
                    continue
                r = res[1]
                if not isinstance(r, numpy.ndarray) or tuple(r.shape) != (tuple(shape) if shape else (size,)):
                    viols.append(V("C05:%s:shape-changed:large" % cmd, "%s returned shape %r" % (cmd, getattr(r, "shape", None)), **tag))
                    continue
                rm = numpy.ma.getmaskarray(r).ravel()
                rd = numpy.where(rm, 0.0, numpy.ma.getdata(r).astype(float).ravel())
                if tol:
                    bad = (rm != bm[pm]) | (numpy.abs(rd - bd[pm]) > tol * numpy.maximum(1.0, numpy.abs(bd[pm])))
                else:
                    bad = (rm != bm[pm]) | (rd != bd[pm])
                if bad.any():
                    i = int(numpy.argmax(bad))
                    viols.append(V("C05:%s:not-equivariant:large" % cmd, "%s on %d cells, %s arrangement: %d cells differ; cell %d is %r, base cell %d is %r" % (
                        cmd, size, name, int(bad.sum()), i, None if rm[i] else float(rd[i]), int(pm[i]), None if bm[pm[i]] else float(bd[pm[i]])), **tag))
                k = "%s:large:%s" % (cmd, "bad" if bad.any() else "ok")
                outcomes[k] = outcomes.get(k, 0) + 1
    return {"evals": max(evals, 1), "nontrivial": judged, "judged": judged, "viols": viols[:30], "outcomes": outcomes, "sample": sample}


def _cells(cmd, dt, n, size, miss):
    if SIG.input_fuzz(cmd) == "fz":
        base = FZ4 if size == 4 else FZ6
    elif dt.startswith("int"):
        base = I4 if size == 4 else I6
    else:
        base = NF4 if size == 4 else NF6
    cols = [list(base[i]) for i in range(n)]
    if miss == 2:
        # a cell that is fully false (-1) in EVERY input, next to cells that are not (fuzzy commands only): where it lands in a grid is the test
        for c in cols:
            c[2] = F(-1)
        return cols
    if miss:
        cols[0][1] = None
        if n > 1:
            cols[n - 1][size - 1] = None
    return cols


def _perms(size, tier):
    if size == 4:
        return list(itertools.permutations(range(4)))
    ident = list(range(6))
    ps = [tuple(ident[k:] + ident[:k]) for k in range(6)] + [tuple(reversed(ident)), (1, 0, 3, 2, 5, 4)]
    return ps


def run(case):
    if case[0] == "ncread":
        return _run_ncread(tuple(case))
    if case[0] == "large":
        return _run_large(tuple(case))
    cmd, n, pi, dt, miss, size, tier = tuple(case)
    params = D.presets_small(cmd, n)[pi]
    cols = _cells(cmd, dt, n, size, miss)
    viols = []
    outcomes = {}
    evals = judged = nontriv = 0
    # statistics over the whole array depend on the summation order: 1e-12 relative in double precision, 1e-5 for single-precision data
    tol = (1e-5 if dt == "float32" else 1e-12) if cmd in STAT else 0.0
    base = D.execute(cmd, [D.mk_array(c, dtype=dt) for c in cols], params)
    evals += 1
    tag0 = {"cmd": cmd, "params": params, "dtype": dt, "inputs": [[str(x) for x in c] for c in cols]}
    if base[0] == "err":
        # the base arrangement itself fails: every rearrangement must fail alike (nothing else to compare) ...
        base_cells = None
        from mpilot.exceptions import MPilotError
        if (not isinstance(base[1], MPilotError) or type(base[1]).__name__ == "UnexpectedError") and not (cmd == "FuzzyXOr" and n == 1):  # (XOr of one input is undefined)
            # ... but a failure that is not one of MPilot's own errors is no answer at all: the command returned no array for well-formed inputs
            viols.append(V("C05:%s:no-result:%s" % (cmd, D.error_name(base[1])), "%s returned no array for %d well-formed input(s) of %d cells: %s" % (
                cmd, n, size, str(base[1])[:160].replace("\n", " ")), **tag0))
    else:
        bshape, base_cells, _ = D.result_cells(base[1]) if isinstance(base[1], numpy.ndarray) else ((), None, False)
        if base_cells is None or len(base_cells) != size:
            viols.append(V("C05:%s:base-not-cellwise" % cmd, "base result is not an array of %d cells: %r" % (size, base[1]), **tag0))
            base_cells = None
    perm_sets = [(shape, _perms(size, tier)) for shape in D.shapes_of(size)]
    if tier == "thorough" and size == 6:
        allp = list(itertools.permutations(range(6)))
        perm_sets += [(s, allp) for s in ((6,), (2, 3), (3, 2), (1, 6, 1), (2, 1, 3))]
    sample = None
    runs = []
    for shape, perms in perm_sets:
        for pi_, pm in enumerate(perms):
            runs.append((shape, pm, "C"))
            # memory layout is not observable: Fortran-ordered, transposed-view and strided inputs must behave like the C-ordered ones
            if len(shape) >= 2 and pi_ < 3:
                runs += [(shape, pm, "F"), (shape, pm, "T"), (shape, pm, "S")]
            elif pi_ == 0:
                runs.append((shape, pm, "S"))
    for shape, pm, layout in runs:
        if True:
            arrays = [D.relayout(D.mk_array([c[k] for k in pm], shape=shape, dtype=dt), layout) for c in cols]
            res = D.execute(cmd, arrays, params)
            evals += 1
            nontriv += 1
            judged += 1
            tag = dict(tag0, shape=list(shape), perm=list(pm), memory_layout=layout)
            sample = tag
            if res[0] == "err":
                if base_cells is not None:
                    viols.append(V("C05:%s:raised:%s" % (cmd, D.error_name(res[1])), "%s fails on shape %r perm %r (%s) but works on the flat base arrangement" % (
                        cmd, shape, pm, str(res[1])[:120].replace("\n", " ")), **tag))
                outcomes["%s:err" % cmd] = outcomes.get("%s:err" % cmd, 0) + 1
                continue
            if base_cells is None:
                if base[0] == "err":
                    viols.append(V("C05:%s:base-fails-rearranged-works" % cmd, "%s fails on the flat arrangement (%r) but works on shape %r perm %r" % (cmd, base[1], shape, pm), **tag))
                continue
            r = res[1]
            if not isinstance(r, numpy.ndarray) or tuple(r.shape) != tuple(shape):
                viols.append(V("C05:%s:shape-changed" % cmd, "%s returned shape %r for inputs of shape %r" % (cmd, getattr(r, "shape", None), shape), **tag))
                continue
            _, cells, _ = D.result_cells(r)
            ok = True
            for i, k in enumerate(pm):
                a, b = cells[i], base_cells[k]
                if (a is None) != (b is None):
                    ok = False
                elif a is not None:
                    if tol == 0.0:
                        ok = ok and (a == b)
                    else:
                        ok = ok and abs(a - b) <= tol * max(1.0, abs(b))
                if not ok:
                    viols.append(V("C05:%s:not-equivariant%s" % (cmd, "" if layout == "C" else ":memory-layout"), "%s: cell %d of the rearranged run (shape %r perm %r layout %s) is %r, base cell %d is %r" % (
                        cmd, i, shape, pm, layout, a, k, b), **tag))
                    break
            k2 = "%s:rank%d:%s" % (cmd, len(shape), "ok" if ok else "bad")
            outcomes[k2] = outcomes.get(k2, 0) + 1
        if len(viols) > 60:
            viols = viols[:60]
    return {"evals": evals, "nontrivial": nontriv, "judged": judged, "viols": viols, "outcomes": outcomes, "sample": sample}
