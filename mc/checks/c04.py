"""C04 — fuzzy results always lie in [-1, +1].

The 14 fuzzy-producing commands x inputs including out-of-range probes and named extremes x parameter alphabets that deliberately
leave the fuzzy range (thresholds, weights, category/curve values, z-score vectors, k, directions).  Invariant on every returned
array: every non-missing cell is a finite float with -1 <= x <= 1.  Executions that raise are not judged by this property.
"""
import itertools
from fractions import Fraction as F

import numpy

from ..core import V
from .. import numdrv as D
from ..ref import sig as SIG

ID = "C04"
LEVEL = "exploration"
CHUNK = 1
RULE = ("cases = (command, n, parameter preset block); fuzzy-logic operators are run on the packed product lattice (in-range values, "
        "out-of-range probes, MISSING); conversions on every array of <=3 cells over the value lattice incl. extremes; invariant "
        "-1<=x<=1 on every non-missing result cell; non-trivial = distinct (command, preset, input tuple/array) that returned an array")
ASSUMPTIONS = ["finite magnitudes from the named alphabets only; executions that raise an error are not judged here (C13 judges them)"]
M = None
FZ_IN = [-1.0, -0.5, 0.0, 0.5, 1.0, -3.0, -1.25, 1.25, 3.0, 1e6, M]
FZ_IN4 = [-1.0, 0.0, 1.0, -1.25, 3.0, M]
RAW = [-2.0, -1.0, 0.0, 0.25, 1.0, 5.0, 1e-6, 1e6, M]
RAW_X = RAW[:-1] + [1e300, -1e300, 5e-324, M]
TH = [-2, -1, 0, 0.25, 1, 5, 1e-6, 1e6, 1e300, -1e300]
OUTV = [-5, -1, 0, 0.5, 1, 7]
WS = [-1, 0.5, 1, 3, 1e6]


def BOUND(tier):
    return "operators n<=3 over an 11-value lattice (n=4: 6 values), weights {-1,1/2,1,3,1e6}^n; conversions on all arrays of <=3 cells over 9 (thorough 12) values"


def presets(cmd, n):
    P = []
    if cmd in ("FuzzyUnion", "FuzzyOr", "FuzzyAnd", "FuzzyXOr", "FuzzyNot"):
        P = [{}]
    elif cmd == "FuzzyWeightedUnion":
        P = [{"Weights": list(w)} for w in itertools.product(WS, repeat=n)] if n <= 3 else [{"Weights": [1, -1, 3, 0.5][:n]}, {"Weights": [1e6, 1, 1, 1][:n]}]
    elif cmd == "FuzzySelectedUnion":
        P = [{"TruestOrFalsest": tf, "NumberToConsider": k} for tf in ("Truest", "Falsest") for k in range(1, n + 1)]
    elif cmd == "CvtToFuzzy":
        for d in (None, "LowToHigh", "HighToLow"):
            dd = {} if d is None else {"Direction": d}
            P.append(dd)
            for t in TH:
                P.append(dict(dd, TrueThreshold=t))
                P.append(dict(dd, FalseThreshold=t))
                if d is None:
                    for f in TH:
                        if f != t:
                            P.append({"TrueThreshold": t, "FalseThreshold": f})
    elif cmd == "CvtToFuzzyZScore":
        zs = [-1e6, -2, -1, 0, 0.5, 3, 1e6]
        P = [{}] + [{"TrueThresholdZScore": t, "FalseThresholdZScore": f} for t in zs for f in zs if t != f]
    elif cmd == "CvtToFuzzyCat":
        for raw in ([0], [0, 1], [5, -1, 0.25]):
            for vals in itertools.product(OUTV, repeat=len(raw)):
                if len(raw) == 3 and vals[0] not in (-5, 7):
                    continue
                for dv in (-5, 0.5, 7):
                    P.append({"RawValues": raw, "FuzzyValues": list(vals), "DefaultFuzzyValue": dv})
    elif cmd == "CvtToFuzzyCurve":
        for raw in itertools.chain(itertools.permutations([-1, 0.25, 5], 2), itertools.permutations([-2, 0, 1], 3), [(1e-6, 1e6), (-1e300, 1e300)]):
            for vals in itertools.product([-5, 0.5, 7], repeat=len(raw)):
                P.append({"RawValues": list(raw), "FuzzyValues": list(vals)})
    elif cmd == "CvtToFuzzyCurveZScore":
        for z in itertools.chain(itertools.permutations([-1, 0, 2], 2), itertools.permutations([-1, 0.5, 1], 3), [(-1e6, 1e6)]):
            for vals in itertools.product([-5, 0.5, 7], repeat=len(z)):
                P.append({"ZScoreValues": list(z), "FuzzyValues": list(vals)})
    elif cmd == "CvtToFuzzyMeanToMid":
        for iz in (False, True):
            for vals in ([-1, -0.5, 0, 0.5, 1], [-5, -1, 0, 1, 7], [7, 1, 0, -1, -5], [3, 3, 3, 3, 3], [-1e6, 0, 0, 0, 1e6]):
                P.append({"IgnoreZeros": iz, "FuzzyValues": vals})
    elif cmd == "CvtToBinary":
        P = [{"Threshold": t, "Direction": d} for t in TH for d in ("LowToHigh", "HighToLow")]
    return P


def cases(tier):
    for cmd in SIG.FUZZY_PRODUCERS:
        if SIG.input_fuzz(cmd) == "fz":
            for n in ((1,) if cmd == "FuzzyNot" else (1, 2, 3, 4)):
                np_ = len(presets(cmd, n))
                for lo in range(0, np_, 8):
                    yield ("op", cmd, n, lo, min(np_, lo + 8), tier)
                if n <= 2:
                    for lo in range(0, np_, 8):
                        yield ("op32", cmd, n, lo, min(np_, lo + 8), tier)  # single-precision inputs
        else:
            np_ = len(presets(cmd, 1))
            blk = 6
            for lo in range(0, np_, blk):
                for dt in ("float", "int"):
                    yield ("cvt", cmd, dt, lo, min(np_, lo + blk), tier)
            for lo in range(0, np_, blk * 4):
                yield ("cvt", cmd, "float32", lo, min(np_, lo + blk * 4), tier)
    for cmd in SIG.FUZZY_PRODUCERS:
        yield ("reuse", cmd, tier)
    for cmd in SIG.FUZZY_PRODUCERS:
        if SIG.input_fuzz(cmd) != "fz":
            yield ("dec32", cmd, tier)


def _check_range(cmd, res, viols, tag):
    r = res[1]
    if not isinstance(r, numpy.ndarray):
        viols.append(V("C04:%s:not-array" % cmd, "result is %r" % (type(r).__name__,), **tag))
        return False
    vals = numpy.ma.asarray(r).compressed()
    if vals.size == 0:
        return True
    if vals.dtype.kind != "f":
        vals = vals.astype(float)
    bad = ~((vals >= -1.0) & (vals <= 1.0))  # NaN fails
    if bad.any():
        v = vals[bad][0]
        kind = "nan" if v != v else ("above" if v > 1 else "below")
        viols.append(V("C04:%s:out-of-range:%s" % (cmd, kind), "%s %r returned %r at a non-missing cell" % (cmd, tag.get("params"), float(v)), **tag))
        return False
    return True


def _op(case):
    kind_, cmd, n, lo, hi, tier = case
    dt_ = "float32" if kind_ == "op32" else "float"
    lat = FZ_IN if n <= 3 else FZ_IN4
    tuples = list(itertools.product(lat, repeat=n))
    cols = [[t[i] for t in tuples] for i in range(n)]
    viols, outcomes = [], {}
    evals = judged = nontriv = 0
    P = presets(cmd, n)
    for pi in range(lo, hi):
        params = P[pi]
        arrays = [D.mk_array(c, dtype=dt_) for c in cols]
        res = D.execute(cmd, arrays, params)
        evals += len(tuples)
        tag = {"cmd": cmd, "n": n, "params": params, "lattice": [repr(x) for x in lat], "dtype": dt_}
        if res[0] == "err":
            k = "%s:err:%s" % (cmd, D.error_name(res[1]))
            outcomes[k] = outcomes.get(k, 0) + 1
            continue
        judged += len(tuples)
        nontriv += len(tuples)
        ok = _check_range(cmd, res, viols, tag)
        k = "%s:%s" % (cmd, "in-range" if ok else "OUT")
        outcomes[k] = outcomes.get(k, 0) + 1
    return {"evals": evals, "nontrivial": nontriv, "judged": judged, "viols": viols, "outcomes": outcomes,
            "sample": {"cmd": cmd, "n": n, "params": P[lo], "cells_in_one_call": len(tuples)}}


def _cvt(case):
    _, cmd, dt, lo, hi, tier = case
    lat = RAW if tier == "quick" else RAW_X
    if dt == "int":
        lat = [-2, -1, 0, 1, 5, 10 ** 6, M]
    if dt == "float32":
        lat = [-2.0, 0.0, 0.25, 1.0, 5.0, 1e6, M]
    viols, outcomes = [], {}
    evals = judged = nontriv = 0
    P = presets(cmd, 1)
    sample = None
    for size in ((1, 2, 3) if dt != "float32" else (1, 2)):
        for cells in itertools.product(lat, repeat=size):
            if all(c is None for c in cells):
                continue
            for pi in range(lo, hi):
                params = P[pi]
                arr = D.mk_array(list(cells), dtype=dt)
                res = D.execute(cmd, [arr], params)
                evals += 1
                tag = {"cmd": cmd, "params": params, "cells": [repr(c) for c in cells], "dtype": dt}
                sample = tag
                if res[0] == "err":
                    k = "%s:err:%s" % (cmd, D.error_name(res[1]))
                    outcomes[k] = outcomes.get(k, 0) + 1
                    continue
                judged += 1
                nontriv += 1
                ok = _check_range(cmd, res, viols, tag)
                k = "%s:%s" % (cmd, "in-range" if ok else "OUT")
                outcomes[k] = outcomes.get(k, 0) + 1
        if len(viols) > 40:
            viols = viols[:40]
    return {"evals": evals, "nontrivial": nontriv, "judged": judged, "viols": viols, "outcomes": outcomes, "sample": sample}


T10 = [0.1, 0.3, 0.5, 0.6, 0.7]  # everyday decimals: none but 0.5 is a binary32 (or binary64) number


def _presets10(cmd):
    P = []
    if cmd == "CvtToFuzzy":
        for d in (None, "LowToHigh", "HighToLow"):
            dd = {} if d is None else {"Direction": d}
            for t in T10:
                for f in T10:
                    if t != f:
                        P.append(dict(dd, TrueThreshold=t, FalseThreshold=f))
    elif cmd == "CvtToBinary":
        P = [{"Threshold": t, "Direction": d} for t in T10 for d in ("LowToHigh", "HighToLow")]
    elif cmd == "CvtToFuzzyCurve":
        for raw in itertools.chain(itertools.permutations(T10, 2), itertools.permutations(T10[:4], 3)):
            for vals in ([-1, 1, -1], [1, -1, 1], [0.3, -0.7, 1]):
                P.append({"RawValues": list(raw), "FuzzyValues": vals[:len(raw)]})
    elif cmd == "CvtToFuzzyCat":
        for raw in itertools.permutations(T10, 2):
            P.append({"RawValues": list(raw), "FuzzyValues": [1, -1], "DefaultFuzzyValue": 0.3})
    elif cmd in ("CvtToFuzzyZScore",):
        P = [{}] + [{"TrueThresholdZScore": t, "FalseThresholdZScore": -t} for t in T10]
    elif cmd == "CvtToFuzzyCurveZScore":
        P = [{"ZScoreValues": [-t, t], "FuzzyValues": [-1, 1]} for t in T10]
    elif cmd == "CvtToFuzzyMeanToMid":
        P = [{"IgnoreZeros": iz, "FuzzyValues": v} for iz in (False, True) for v in ([-1, -0.5, 0, 0.5, 1], [1, 0.3, 0.1, -0.6, -1])]
    return P


def _dec32(case):
    """single-precision data that are everyday decimals (0.1, 0.3, 0.55, ...) against thresholds / curve points that are the same decimals
    in double precision: the data sit a rounding error beside the thresholds.  Every array of <=3 cells + two 5-cell arrays."""
    _, cmd, tier = case
    lat = [0.1, 0.3, 0.5, 0.55, 0.6, 0.7, M]
    viols, outcomes = [], {}
    evals = judged = 0
    sample = None
    arrays = [c for size in (1, 2, 3) for c in itertools.product(lat, repeat=size) if not all(x is None for x in c)]
    arrays += [(0.5, 0.52, 0.55, 0.58, 0.59), (0.1, 0.3, 0.5, 0.6, 0.7)]
    for params in _presets10(cmd):
        for cells in arrays:
            for dt in ("float32", "float"):
                arr = D.mk_array(list(cells), dtype=dt)
                res = D.execute(cmd, [arr], params)
                evals += 1
                tag = {"cmd": cmd, "params": params, "cells": [repr(c) for c in cells], "dtype": dt}
                sample = tag
                if res[0] == "err":
                    k = "%s:err:%s" % (cmd, D.error_name(res[1]))
                    outcomes[k] = outcomes.get(k, 0) + 1
                    continue
                judged += 1
                ok = _check_range(cmd, res, viols, tag)
                if not ok:
                    viols[-1]["key"] += ":decimal-thresholds:" + dt
                k = "%s:dec:%s" % (cmd, "in-range" if ok else "OUT")
                outcomes[k] = outcomes.get(k, 0) + 1
        if len(viols) > 30:
            viols = viols[:30]
    return {"evals": max(evals, 1), "nontrivial": judged, "judged": judged, "viols": viols, "outcomes": outcomes, "sample": sample}


def _reuse(case):
    """a fuzzy result must stay within [-1, +1] for as long as it exists: produce it, then let EVERY command that accepts fuzzy input
    consume it (alone and together with a second fuzzy result), re-checking the range after each consumer"""
    _, cmd, tier = case
    viols, outcomes = [], {}
    evals = judged = 0
    consumers = [c for c in SIG.DATA_COMMANDS if SIG.input_fuzz(c) in ("fz", "*")]
    if SIG.input_fuzz(cmd) == "fz":
        n = 1 if cmd == "FuzzyNot" else 2
        srcs = [[D.mk_array([-1.0, -0.25, 0.5, 1.0, 0.0, None]) for _ in range(n)], [D.mk_array([1.0, 0.75, -1.0, 0.0, None, -0.5]) for _ in range(n)]]
    else:
        srcs = [[D.mk_array([-2.0, 0.0, 0.25, 1.0, 5.0, None])], [D.mk_array([1.0, 5.0, -1.0, 0.0, 2.0, 3.0])], [D.mk_array([0, 2, 5, -1, 1, 3], dtype="int")]]
    for src in srcs:
        for params in D.presets_small(cmd, len(src)):
            r = D.execute(cmd, src, params)
            evals += 1
            if r[0] != "ok" or not isinstance(r[1], numpy.ndarray):
                continue
            F = r[1]
            before = numpy.ma.MaskedArray(F).copy()
            other = D.mk_array([0.5, -0.5, 1.0, -1.0, 0.25, 0.0])
            for cons in consumers:
                for n2 in D.arities(cons, 2):
                    for cparams in D.presets_small(cons, n2):
                        ins = [F] if n2 == 1 else [F, other]
                        D.execute(cons, ins, cparams, fuzzy_inputs=True)
                        evals += 1
                        judged += 1
                        tag = {"producer": cmd, "producer_params": params, "consumer": cons, "consumer_params": cparams}
                        ok = _check_range(cmd, ("ok", F), viols, dict(tag, params=params))
                        if ok and not (numpy.ma.getmaskarray(F) == numpy.ma.getmaskarray(before)).all():
                            ok = True  # missing cells are C03/C09's business
                        if not ok:
                            viols[-1]["key"] += ":while-consumed-by:" + cons
                            F = None
                            break
                    if F is None:
                        break
                if F is None:
                    break
            k = "reuse:%s:%s" % (cmd, "in-range" if F is not None else "OUT")
            outcomes[k] = outcomes.get(k, 0) + 1
            # ... and be WRITTEN (CSV and NetCDF writers), alone and next to a second field whose missing cells differ (every single
            # missing cell, none, all; thorough: every subset), in both orders: the written result must still lie in [-1, +1]
            rw = _written(cmd, src, params, tier, viols)
            evals += rw[0]
            judged += rw[0]
            for k, v in rw[1].items():
                outcomes[k] = outcomes.get(k, 0) + v
    return {"evals": max(evals, 1), "nontrivial": judged, "judged": judged, "viols": viols[:20], "outcomes": outcomes,
            "sample": {"producer": cmd, "consumers": len(consumers)}}


_W = {}


def _written(cmd, src, params, tier, viols):
    import importlib
    import os
    from .. import snapshot
    from . import c18

    if "dir" not in _W:
        _W["dir"] = snapshot.scratch_dir("c04w_")
        c18._make_template(os.path.join(_W["dir"], "tpl.nc"), (2, 3), {"t": ("f8", [0.0] * 6, None, None)})
        _W["nc"] = importlib.import_module("mpilot.libraries.eems.netcdf.io").EEMSWrite
        _W["csv"] = importlib.import_module("mpilot.libraries.eems.csv.io").EEMSWrite
    wd = _W["dir"]
    n = 0
    outcomes = {}
    placements = list(range(64)) if tier == "thorough" else [0] + [1 << i for i in range(6)] + [63]
    for writer, shape in (("csv", (6,)), ("nc", (2, 3))):
        for m in placements:
            for order in ((0, 1), (1, 0), (0,)):
                if order == (0,) and m:
                    continue
                r = D.execute(cmd, [numpy.ma.MaskedArray(a).reshape(shape) for a in src], params)
                if r[0] != "ok" or not isinstance(r[1], numpy.ndarray):
                    return n, outcomes
                F = r[1]
                G = numpy.ma.MaskedArray(numpy.array([0.5, -0.5, 1.0, -1.0, 0.25, 0.0]).reshape(shape), mask=numpy.array([bool(m >> i & 1) for i in range(6)]).reshape(shape))
                fields = [D.producer("res", F, True), D.producer("oth", G, True)]
                kw = {"OutFileName": os.path.join(wd, "w.csv" if writer == "csv" else "w.nc"), "OutFieldNames": [fields[i] for i in order]}
                if writer == "nc":
                    kw.update(DimensionFileName=os.path.join(wd, "tpl.nc"), DimensionFieldName="t")
                try:
                    with numpy.errstate(all="ignore"):
                        _W[writer]("w").execute(**kw)
                except Exception as exc:
                    outcomes["written:%s:raised:%s" % (writer, type(exc).__name__)] = outcomes.get("written:%s:raised:%s" % (writer, type(exc).__name__), 0) + 1
                    continue
                n += 1
                tag = {"producer": cmd, "producer_params": params, "writer": writer, "fields": ["res" if i == 0 else "oth" for i in order],
                       "other_missing": [bool(m >> i & 1) for i in range(6)], "params": params}
                if not _check_range(cmd, ("ok", F), viols, tag):
                    viols[-1]["key"] += ":after-written-by:" + writer
                    return n, outcomes
                outcomes["written:%s:in-range" % writer] = outcomes.get("written:%s:in-range" % writer, 0) + 1
    return n, outcomes


def run(case):
    case = tuple(case)
    if case[0] == "reuse":
        return _reuse(case)
    if case[0] == "dec32":
        return _dec32(case)
    return _op(case) if case[0] in ("op", "op32") else _cvt(case)
