"""C18 — NetCDF reading and writing are faithful.

Template datasets are generated in the scratch directory: grids (1,1) (1,3) (2,2) (2,3) with dimension variables carrying
attributes; data variables f8 / i4 / i8 with EVERY placement of missing cells (<=16, thorough 64) and _FillValue present/absent.
Read space: DataType in {absent, Float, Integer, Positive Float, Positive Integer, Fuzzy} x MissingValue in {absent, a value in the
data, a value not in the data} x value sets {plain, with negatives, fuzzy range, slightly / clearly outside the fuzzy range};
unknown variable.  Write space: every ordered set of 1..2 results (float / int, masked / unmasked / nomask, every mask placement
of the first) written together, then read back with netCDF4 and with EEMSRead.
Oracle: values, element kind, shape, missing cells (file mask united with MissingValue; on write the union of all written masks),
dimension variables and attributes equal to the template's, and the documented errors exactly when their condition holds.
"""
import itertools
import os

import numpy

from ..core import V
from .. import snapshot

ID = "C18"
LEVEL = "exploration"
CHUNK = 1
LIBS = ("mpilot.libraries.eems.netcdf", "mc.vlib.const")
RULE = ("cases = (grid, variable type, value set, fill-value option) x all missing placements x read options / (grid, result-set shape) "
        "x all mask placements for writes; every case runs the real EEMSRead / EEMSWrite on files generated or inspected with netCDF4; "
        "non-trivial = distinct (file content, options)")
ASSUMPTIONS = ["netCDF4-python as installed is the reference for file contents", "the optional read parameter is named MissingValue as in the code (the docs say MissingVal)",
               "Positive Integer may be returned as a signed or unsigned integer array; float data read as Integer is rounded to nearest"]
GRIDS = [(1, 1), (1, 3), (2, 2), (2, 3)]
VALUESETS = {
    "plain": [0.0, 1.5, 2.0, 7.25, 3.0, 100.0],
    "neg": [-2.0, 1.5, 0.0, -0.5, 3.0, 8.0],
    "fuzzy": [-1.0, -0.25, 0.0, 0.5, 1.0, 0.75],
    "fuzzy-pad": [-1.01, 0.25, 1.015, 0.5, -0.5, 1.0],
    "fuzzy-out": [-1.0, 0.25, 1.5, 0.5, -0.5, 1.0],
    "fuzzy-out-low": [-1.2, 0.25, 0.5, 0.5, -0.5, 1.0],
    "near-marker": [0.0, 1e-9, -9999.0, -9999.05, 5e-324, 2.0],  # legitimate values close to a MissingValue of 0 / -9999
}
INTSETS = {"plain": [0, 1, 2, 7, 3, 100], "neg": [-2, 1, 0, -5, 3, 8], "fuzzy": [-1, 0, 1, 0, 1, -1]}
# signed integer variables holding the MINIMUM of their type (the usual no-data value of 16-bit rasters, often not declared as _FillValue):
# its magnitude does not exist in the type, so a range check on magnitudes wraps around
TYPEMIN = {"i2": {"typemin16": [-32768, 0, 1, -1, 1, 0]}, "i4": {"typemin32": [-2147483648, 0, 1, -1, 1, 0]}, "i8": {"typemin64": [-2 ** 63, 0, 1, -1, 1, 0]}}
DTYPES = [None, "Float", "Integer", "Positive Float", "Positive Integer", "Fuzzy"]


# narrow integer results holding the extreme values of their type, among them the value NetCDF uses as the DEFAULT fill of the type (255, 65535, -32767):
# a complete grid must come back complete (the values numpy.ma picks as its own marker for these types, 999999 wrapped to 63 / 16959, are left out)
NARROW = {"u1": ("u1", [255, 0, 7, 200, 1, 254]), "u2": ("u2", [65535, 0, 1, 40000, 2, 65534]), "i2": ("i2", [-32767, 0, 5, 32767, -32768, 7]),
          "u8": ("u8", [5, 0, 7, 2 ** 40, 1, 3])}  # (uint64: what a Positive Integer read delivers)


def BOUND(tier):
    return "grids <=6 cells; f8/i4/i8; all missing placements for <=4 cells (6-cell grid: 16 placements, thorough 64); 6 DataTypes x 3 MissingValue options; writes of 1-2 results x all first-mask placements"


def cases(tier):
    for gi in range(len(GRIDS)):
        for vt in ("f8", "i4", "i8"):
            for vs in (VALUESETS if vt == "f8" else INTSETS):
                for fill in (True, False):
                    yield ("read", gi, vt, vs, fill, tier)
    for gi in range(len(GRIDS)):
        for vt in ("i2", "i4", "i8"):
            for vs in TYPEMIN[vt]:
                yield ("read", gi, vt, vs, False, tier)
    yield ("novar",)
    yield ("templates",)
    yield ("chain",)
    for gi in range(len(GRIDS)):
        for kinds in (("f",), ("i",), ("f", "f"), ("f", "i"), ("i", "f"), ("u1",), ("u2",), ("i2",), ("u1", "f"), ("u8",), ("u8", "f")):
            yield ("write", gi, kinds, tier)


def _placements(n, tier):
    if n <= 4 or tier == "thorough":
        return list(range(1 << n))
    # 6 cells in quick: every placement of up to 2 missing cells + all-missing
    out = [m for m in range(1 << n) if bin(m).count("1") <= 2] + [(1 << n) - 1]
    return out


def _make_template(path, grid, variables):
    """variables: {name: (nc type, values array, mask array or None, fill value or None)}"""
    from netCDF4 import Dataset

    with Dataset(path, "w") as ds:
        ds.createDimension("y", grid[0])
        ds.createDimension("x", grid[1])
        y = ds.createVariable("y", "f8", ("y",))
        y.units = "degrees_north"
        y.long_name = "latitude"
        y[:] = numpy.arange(grid[0]) * 0.5 + 40
        x = ds.createVariable("x", "f4", ("x",))
        x.units = "degrees_east"
        x.setncattr("standard_name", "longitude")
        x[:] = numpy.arange(grid[1]) * 0.25 - 120
        for name, (nctype, vals, mask, fill) in variables.items():
            v = ds.createVariable(name, nctype, ("y", "x"), fill_value=fill) if fill is not None else ds.createVariable(name, nctype, ("y", "x"))
            arr = numpy.ma.MaskedArray(numpy.array(vals).reshape(grid), mask=None if mask is None else numpy.array(mask).reshape(grid))
            v[:] = arr


_P = {}


def _program(work):
    from mpilot.program import Program

    if _P.get("wd") != work:
        _P["p"] = Program(libraries=LIBS, working_dir=work)
        _P["wd"] = work
    p = _P["p"]
    p.commands = {}
    return p


def _eems_read(work, fname, var, dtype=None, missing=None):
    from mpilot.exceptions import MPilotError

    p = _program(work)
    args = {"InFileName": fname, "InFieldName": var}
    if dtype is not None:
        args["DataType"] = dtype
    if missing is not None:
        args["MissingValue"] = missing
    p.add_command(p.find_command_class("EEMSRead"), "r", args)
    try:
        with numpy.errstate(all="ignore"):
            return ("ok", p.commands["r"].result)
    except MPilotError as exc:
        return ("err", exc)


def _expected_read(vals, miss, vt, dtype, missing_value):
    """-> ("ok", values list, mask list, kind) | ("err", class name)"""
    valid = [v for v, m in zip(vals, miss) if not m]
    if dtype in ("Positive Float", "Positive Integer") and valid and min(valid) < 0:
        return ("err", "InvalidPositiveData")
    if dtype == "Fuzzy" and valid and (max(valid) > 1.02 or min(valid) < -1.02):
        return ("err", "InvalidFuzzyData")
    out = []
    for v in vals:
        if dtype in ("Integer", "Positive Integer"):
            out.append(int(numpy.rint(v)))
        elif dtype == "Fuzzy":
            out.append(max(-1.0, min(1.0, float(v))))
        else:
            out.append(float(v))
    mask = list(miss)
    if missing_value is not None:
        mask = [m or (o == missing_value) for m, o in zip(mask, out)]
    kind = "iu" if dtype in ("Integer", "Positive Integer") else "f"
    return ("ok", out, mask, kind)


def _run_read(case):
    _, gi, vt, vs, fill, tier = case
    grid = GRIDS[gi]
    n = grid[0] * grid[1]
    vals = (VALUESETS if vt == "f8" else (TYPEMIN[vt] if vs in TYPEMIN.get(vt, ()) else INTSETS))[vs][:n]
    work = snapshot.scratch_dir("c18_")
    viols, outcomes = [], {}
    evals = judged = 0
    sample = None
    fillv = (-9999.0 if vt == "f8" else -9999) if fill else None
    try:
        for m in _placements(n, tier):
            miss = [bool(m >> i & 1) for i in range(n)]
            # a cell whose value equals the variable's _FillValue IS a missing cell of the file (netCDF semantics, not MPilot's)
            miss = [mm or (fillv is not None and v_ == fillv) for mm, v_ in zip(miss, vals)]
            _make_template(os.path.join(work, "in.nc"), grid, {"v": (vt, vals, miss if any(miss) else None, fillv)})
            valid = [v for v, mm in zip(vals, miss) if not mm]
            mvs = [None, 12345]
            for v_ in valid:  # every value present in the data is tried as the MissingValue (exact matches only may become missing)
                if v_ not in mvs:
                    mvs.append(v_)
            mvs += [x for x in (2.5, -0.5) if x not in mvs]  # fractional MissingValue: never equal to a cell of an integer read
            for dtype in DTYPES:
                for mv in mvs:
                    res = _eems_read(work, "in.nc", "v", dtype, mv)
                    evals += 1
                    judged += 1
                    exp = _expected_read(vals, miss, vt, dtype, mv)
                    tag = {"grid": list(grid), "nc_type": vt, "values": vals, "file_mask": miss, "fill_value": fillv, "DataType": dtype, "MissingValue": mv}
                    sample = tag
                    dk = (dtype or "default").replace(" ", "")
                    mk = "with-MissingValue" if mv is not None else "no-MissingValue"
                    if exp[0] == "err":
                        if res[0] != "err" or type(res[1]).__name__ != exp[1]:
                            got = type(res[1]).__name__ + ": " + str(res[1]).split("\n")[0][:100] if res[0] == "err" else "a result"
                            viols.append(V("C18:read:expected-%s:%s" % (exp[1], dk), "DataType %r on %s data: expected %s, got %s" % (dtype, vs, exp[1], got), **tag))
                        outcomes["read:err:" + exp[1]] = outcomes.get("read:err:" + exp[1], 0) + 1
                        continue
                    if res[0] == "err":
                        viols.append(V("C18:read:raised:%s:%s:%s" % (type(res[1]).__name__, dk, mk), "EEMSRead(DataType=%r, MissingValue=%r) raised %s: %s" % (
                            dtype, mv, type(res[1]).__name__, str(res[1]).split("\n")[0][:160]), **tag))
                        continue
                    a = res[1]
                    if not isinstance(a, numpy.ndarray) or a.shape != grid:
                        viols.append(V("C18:read:wrong-shape:%s" % dk, "result %r for grid %r" % (getattr(a, "shape", type(a)), grid), **tag))
                        continue
                    if a.dtype.kind not in exp[3]:
                        viols.append(V("C18:read:wrong-element-kind:%s" % dk, "element type %s for DataType %r" % (a.dtype, dtype), **tag))
                        continue
                    gm = numpy.ma.getmaskarray(a).ravel().tolist()
                    if gm != exp[2]:
                        viols.append(V("C18:read:wrong-missing:%s:%s" % (dk, mk), "missing cells %r, expected %r" % (gm, exp[2]), **tag))
                        continue
                    gv = numpy.ma.getdata(a).ravel().tolist()
                    bad = [i for i in range(n) if not exp[2][i] and gv[i] != exp[1][i]]
                    if bad:
                        viols.append(V("C18:read:wrong-value:%s" % dk, "cell %d is %r, file has %r" % (bad[0], gv[bad[0]], exp[1][bad[0]]), **tag))
                        continue
                    outcomes["read:ok:%s" % dk] = outcomes.get("read:ok:%s" % dk, 0) + 1
            if len(viols) > 60:
                del viols[60:]
    finally:
        import shutil
        shutil.rmtree(work, ignore_errors=True)
    return {"evals": evals, "nontrivial": evals, "judged": judged, "viols": viols, "outcomes": outcomes, "sample": sample}


def _run_novar(case):
    work = snapshot.scratch_dir("c18_")
    viols = []
    n = 0
    try:
        _make_template(os.path.join(work, "in.nc"), (2, 2), {"v": ("f8", [1.0, 2.0, 3.0, 4.0], None, None)})
        for var in ("w", "V", "x ", ""):
            for dtype in DTYPES:
                res = _eems_read(work, "in.nc", var, dtype, None)
                n += 1
                if res[0] != "err" or type(res[1]).__name__ != "NoSuchVariable":
                    viols.append(V("C18:read:expected-NoSuchVariable", "variable %r: got %s" % (var, type(res[1]).__name__ if res[0] == "err" else "a result"), variable=var, DataType=dtype))
    finally:
        import shutil
        shutil.rmtree(work, ignore_errors=True)
    return {"evals": n, "nontrivial": n, "judged": n, "viols": viols, "outcomes": {"novar": n}, "sample": {"variable": "w"}}


def _run_write(case):
    from netCDF4 import Dataset
    from mpilot.exceptions import MPilotError
    from ..vlib import const as C

    _, gi, kinds, tier = case
    grid = GRIDS[gi]
    n = grid[0] * grid[1]
    work = snapshot.scratch_dir("c18_")
    viols, outcomes = [], {}
    evals = judged = 0
    sample = None
    fvals = [0.5, -1.25, 3.0, 1e10, -0.0, 7.75][:n]
    ivals = [2, -1, 0, 123456, 5, -7][:n]  # (999999 is the integer fill value: a cell equal to it cannot be told from a missing cell)
    try:
        _make_template(os.path.join(work, "tpl.nc"), grid, {"t": ("f8", [0.0] * n, None, None)})
        with Dataset(os.path.join(work, "tpl.nc")) as ds:
            tpl = {d: (ds[d][:].copy(), {a: ds[d].getncattr(a) for a in ds[d].ncattrs()}, ds[d].dtype.str) for d in ("y", "x")}
        second_masks = [None, 0, 1 << (n - 1), (1 << n) - 1] if len(kinds) > 1 else [None]
        for m1 in [None] + _placements(n, tier):
            for m2 in second_masks:
                masks = [m1] + ([m2] if len(kinds) > 1 else [])
                arrays = []
                for k, m in zip(kinds, masks):
                    if k in NARROW:
                        data = numpy.array(NARROW[k][1][:n], dtype=NARROW[k][0]).reshape(grid)
                    else:
                        data = numpy.array(fvals if k == "f" else ivals, dtype=float if k == "f" else numpy.int64).reshape(grid)
                    if m is None:
                        arrays.append(numpy.ma.MaskedArray(data))
                    else:
                        arrays.append(numpy.ma.MaskedArray(data, mask=numpy.array([bool(m >> i & 1) for i in range(n)]).reshape(grid)))
                names = ["R%d" % i for i in range(len(arrays))]
                p = _program(work)
                C.TABLE.clear()
                for nm, a in zip(names, arrays):
                    C.TABLE[nm] = (lambda a=a: a.copy())
                    p.add_command(p.find_command_class("ConstNF"), nm, {"Key": nm})
                p.add_command(p.find_command_class("EEMSWrite"), "W", {"OutFileName": "out.nc", "OutFieldNames": list(names), "DimensionFileName": "tpl.nc", "DimensionFieldName": "t"})
                evals += 1
                judged += 1
                union = [any((m is not None and (m >> i & 1)) for m in masks) for i in range(n)]
                tag = {"grid": list(grid), "kinds": list(kinds), "masks": [None if m is None else [bool(m >> i & 1) for i in range(n)] for m in masks]}
                sample = tag
                mk = "+".join("nomask" if m is None else ("masked" if m else "all-false") for m in masks)
                if os.path.exists(os.path.join(work, "out.nc")):
                    os.remove(os.path.join(work, "out.nc"))
                try:
                    with numpy.errstate(all="ignore"):
                        p.commands["W"].result
                except MPilotError as exc:
                    viols.append(V("C18:write:raised:%s:%s" % (type(exc).__name__, mk), "writing %s results with masks %s raised %s: %s" % (
                        "+".join(kinds), mk, type(exc).__name__, str(exc).split("\n")[0][:160]), **tag))
                    continue
                ok = True
                # the results that were written must not have been modified by the writer (they may be written or consumed again)
                for nm, a in zip(names, arrays):
                    now = p.commands[nm].result
                    if (numpy.ma.getmaskarray(now) != numpy.ma.getmaskarray(a)).any() or not numpy.array_equal(numpy.ma.getdata(now)[~numpy.ma.getmaskarray(a)], a.data[~numpy.ma.getmaskarray(a)]):
                        viols.append(V("C18:write:written-result-modified:%s" % mk, "%s changed while being written: missing cells now %r, were %r" % (
                            nm, numpy.ma.getmaskarray(now).ravel().tolist(), numpy.ma.getmaskarray(a).ravel().tolist()), **tag))
                        ok = False
                with Dataset(os.path.join(work, "out.nc")) as ds:
                    for d in ("y", "x"):
                        if d not in ds.variables:
                            viols.append(V("C18:write:dimension-variable-missing", "dimension variable %s not written" % d, **tag))
                            ok = False
                            continue
                        got = ds[d][:]
                        attrs = {a: ds[d].getncattr(a) for a in ds[d].ncattrs()}
                        if ds[d].dtype.str != tpl[d][2] or got.shape != tpl[d][0].shape or not numpy.array_equal(numpy.asarray(got), numpy.asarray(tpl[d][0])):
                            viols.append(V("C18:write:dimension-values-differ", "coordinate values of %s differ from the template" % d, **tag))
                            ok = False
                        if attrs != tpl[d][1]:
                            viols.append(V("C18:write:dimension-attributes-differ", "attributes of %s: %r, template %r" % (d, attrs, tpl[d][1]), **tag))
                            ok = False
                    for nm, a, k in zip(names, arrays, kinds):
                        if nm not in ds.variables:
                            viols.append(V("C18:write:variable-missing", "result %s not written" % nm, **tag))
                            ok = False
                            continue
                        v = ds[nm][:]
                        if v.shape != grid:
                            viols.append(V("C18:write:wrong-shape", "%s written with shape %r, grid %r" % (nm, v.shape, grid), **tag))
                            ok = False
                            continue
                        if (v.dtype.kind == "f") != (k == "f"):
                            viols.append(V("C18:write:wrong-element-kind", "%s (%s) written as %s" % (nm, k, v.dtype), **tag))
                            ok = False
                        gm = numpy.ma.getmaskarray(v).ravel().tolist()
                        if gm != union:
                            viols.append(V("C18:write:wrong-missing:%s" % mk, "%s: missing cells in the file %r, union of written masks %r" % (nm, gm, union), **tag))
                            ok = False
                            continue
                        gv = numpy.ma.getdata(v).ravel().tolist()
                        sv = a.data.ravel().tolist()
                        bad = [i for i in range(n) if not union[i] and gv[i] != sv[i]]
                        if bad:
                            viols.append(V("C18:write:wrong-value", "%s cell %d written as %r, value %r" % (nm, bad[0], gv[bad[0]], sv[bad[0]]), **tag))
                            ok = False
                # read back through EEMSRead
                for nm, a, k in zip(names, arrays, kinds):
                    res = _eems_read(work, "out.nc", nm, "Float" if k == "f" else "Integer", None)
                    evals += 1
                    if res[0] == "err":
                        viols.append(V("C18:roundtrip:reread-raised:%s" % type(res[1]).__name__, "re-reading %s raised %s" % (nm, str(res[1]).split("\n")[0][:160]), **tag))
                        ok = False
                        continue
                    b = res[1]
                    if b.shape != grid or numpy.ma.getmaskarray(b).ravel().tolist() != union or (b.dtype.kind == "f") != (k == "f"):
                        viols.append(V("C18:roundtrip:shape-kind-or-mask-differs", "%s re-read as shape %r dtype %s mask %r" % (nm, b.shape, b.dtype, numpy.ma.getmaskarray(b).ravel().tolist()), **tag))
                        ok = False
                        continue
                    gv, sv = numpy.ma.getdata(b).ravel().tolist(), a.data.ravel().tolist()
                    if any(not union[i] and gv[i] != sv[i] for i in range(n)):
                        viols.append(V("C18:roundtrip:value-differs", "%s re-read %r, written %r" % (nm, gv, sv), **tag))
                        ok = False
                outcomes["write:%s:%s" % ("+".join(kinds), "ok" if ok else "bad")] = outcomes.get("write:%s:%s" % ("+".join(kinds), "ok" if ok else "bad"), 0) + 1
            if len(viols) > 60:
                del viols[60:]
    finally:
        import shutil
        shutil.rmtree(work, ignore_errors=True)
    return {"evals": evals, "nontrivial": evals, "judged": judged, "viols": viols, "outcomes": outcomes, "sample": sample}


def _run_chain(case):
    """read -> write -> read: what EEMSRead delivered (every DataType, with and without missing cells, zeros included), written by EEMSWrite
    alone and next to a float field, read back with the same DataType: same shape, element kind, values and missing cells"""
    from netCDF4 import Dataset
    from mpilot.exceptions import MPilotError

    work = snapshot.scratch_dir("c18_")
    viols, outcomes = [], {}
    evals = 0
    sample = None
    grid = (2, 3)
    try:
        for vt, vals in (("f8", [0.0, 1.5, 2.0, 0.0, 3.0, 100.0]), ("i4", [0, 1, 2, 0, 3, 100]), ("f8", [-1.0, -0.25, 0.0, 0.5, 1.0, 0.0])):
            for m in (0, 1, 0b100010):
                miss = [bool(m >> i & 1) for i in range(6)]
                _make_template(os.path.join(work, "in.nc"), grid, {"v": (vt, vals, miss if m else None, -9999.0 if vt == "f8" else -9999),
                                                                  "w": ("f8", [0.5] * 6, None, None)})
                for dtype in DTYPES:
                    for companion in (False, True):
                        p = _program(work)
                        args = {"InFileName": "in.nc", "InFieldName": "v"}
                        if dtype:
                            args["DataType"] = dtype
                        p.add_command(p.find_command_class("EEMSRead"), "R", args)
                        names = ["R"]
                        if companion:
                            p.add_command(p.find_command_class("EEMSRead"), "Wf", {"InFileName": "in.nc", "InFieldName": "w"})
                            names.append("Wf")
                        p.add_command(p.find_command_class("EEMSWrite"), "W", {"OutFileName": "out.nc", "OutFieldNames": names, "DimensionFileName": "in.nc", "DimensionFieldName": "v"})
                        if os.path.exists(os.path.join(work, "out.nc")):
                            os.remove(os.path.join(work, "out.nc"))
                        evals += 1
                        tag = {"nc_type": vt, "values": vals, "file_mask": miss, "DataType": dtype, "written_with_a_float_field": companion}
                        sample = tag
                        try:
                            with numpy.errstate(all="ignore"):
                                first = p.commands["R"].result.copy()
                                p.commands["W"].result
                        except MPilotError as exc:
                            outcomes["chain:first-read-or-write-raised:" + type(exc).__name__] = outcomes.get("chain:first-read-or-write-raised:" + type(exc).__name__, 0) + 1
                            continue  # (e.g. the positive / fuzzy checks: judged by the read family)
                        res = _eems_read(work, "out.nc", "R", dtype, None)
                        if res[0] == "err":
                            viols.append(V("C18:chain:reread-raised:%s" % type(res[1]).__name__, "re-reading what EEMSRead(DataType=%r) delivered and EEMSWrite wrote raised %s" % (
                                dtype, str(res[1]).split("\n")[0][:160]), **tag))
                            continue
                        b = res[1]
                        fm, bm = numpy.ma.getmaskarray(first), numpy.ma.getmaskarray(b)
                        dk = (dtype or "default").replace(" ", "")
                        if b.shape != first.shape or b.dtype.kind != first.dtype.kind:
                            viols.append(V("C18:chain:shape-or-kind-differs:%s" % dk, "read %r %s, after write and re-read %r %s" % (first.shape, first.dtype, b.shape, b.dtype), **tag))
                        elif (fm != bm).any():
                            viols.append(V("C18:chain:missing-cells-differ:%s" % dk, "missing cells %r after the round trip, were %r (values %r)" % (
                                bm.ravel().tolist(), fm.ravel().tolist(), numpy.ma.getdata(first).ravel().tolist()), **tag))
                        elif not numpy.array_equal(numpy.ma.getdata(b)[~bm], numpy.ma.getdata(first)[~fm]):
                            viols.append(V("C18:chain:values-differ:%s" % dk, "values %r after the round trip, were %r" % (numpy.ma.getdata(b).ravel().tolist(), numpy.ma.getdata(first).ravel().tolist()), **tag))
                        else:
                            outcomes["chain:ok:%s" % dk] = outcomes.get("chain:ok:%s" % dk, 0) + 1
        # a result DERIVED from a read that used MissingValue, holding the marker's number at ordinary cells (A - A = 0 with MissingValue = 0)
        for vt, vals in (("f8", [0.0, 1.5, 2.0, 0.0, 3.0, 100.0]), ("i4", [0, 1, 2, 0, 3, 100])):
            _make_template(os.path.join(work, "in.nc"), grid, {"v": (vt, vals, None, None)})
            for mv in (0, 2):
                for dtype in (None, "Integer"):
                    from mpilot.program import Program

                    p = Program(libraries=("mpilot.libraries.eems.basic", "mpilot.libraries.eems.netcdf"), working_dir=work)
                    args = {"InFileName": "in.nc", "InFieldName": "v", "MissingValue": mv}
                    if dtype:
                        args["DataType"] = dtype
                    p.add_command(p.find_command_class("EEMSRead"), "R", args)
                    p.add_command(p.find_command_class("EEMSRead"), "S", dict(args, MissingValue=12345))
                    p.add_command(p.find_command_class("AMinusB"), "D", {"A": "R", "B": "S"})      # zeros wherever R is present
                    p.add_command(p.find_command_class("Sum"), "E", {"InFieldNames": ["R", "D"]})  # R again, computed
                    p.add_command(p.find_command_class("EEMSWrite"), "W", {"OutFileName": "out.nc", "OutFieldNames": ["D", "E"], "DimensionFileName": "in.nc", "DimensionFieldName": "v"})
                    if os.path.exists(os.path.join(work, "out.nc")):
                        os.remove(os.path.join(work, "out.nc"))
                    evals += 1
                    tag = {"nc_type": vt, "values": vals, "MissingValue": mv, "DataType": dtype, "model": "R = Read(MissingValue); S = Read; D = R - S; E = R + D; write [D, E]"}
                    sample = tag
                    try:
                        with numpy.errstate(all="ignore"):
                            before = {n_: p.commands[n_].result.copy() for n_ in ("D", "E")}
                            p.commands["W"].result
                    except MPilotError as exc:
                        viols.append(V("C18:chain:derived:raised:%s" % type(exc).__name__, "model raised %s" % str(exc).split("\n")[0][:160], **tag))
                        continue
                    for n_ in ("D", "E"):
                        res = _eems_read(work, "out.nc", n_, dtype, None)
                        first = before[n_]
                        union = numpy.ma.getmaskarray(before["D"]) | numpy.ma.getmaskarray(before["E"])
                        if res[0] == "err":
                            viols.append(V("C18:chain:derived:reread-raised:%s" % type(res[1]).__name__, "re-reading %s raised %s" % (n_, str(res[1]).split("\n")[0][:120]), **tag))
                        elif (numpy.ma.getmaskarray(res[1]) != union).any():
                            viols.append(V("C18:chain:derived:missing-cells-differ", "%s: missing cells %r after the round trip, written %r (values %r)" % (
                                n_, numpy.ma.getmaskarray(res[1]).ravel().tolist(), union.ravel().tolist(), numpy.ma.getdata(first).ravel().tolist()), **tag))
                        elif not numpy.array_equal(numpy.ma.getdata(res[1])[~union], numpy.ma.getdata(first)[~union]):
                            viols.append(V("C18:chain:derived:values-differ", "%s: values differ after the round trip" % n_, **tag))
                        else:
                            outcomes["chain:derived:ok"] = outcomes.get("chain:derived:ok", 0) + 1
        # the file's _FillValue is an ORDINARY number (-1, 0, 1: common for integer rasters) and the variable has a missing cell, so that the
        # array read carries that number as its marker; a result DERIVED from it (fuzzy conversion, difference, copy) legitimately holds the same
        # number in cells that are present: written and read back, those cells are still present
        from mpilot.program import Program

        for nctype, fillv, stored in (("i2", -1, [0, 4, 8, 0, 2, 6]), ("i2", 0, [1, 4, 8, 1, 2, 6]), ("f8", 1.0, [0.0, 4.0, 8.0, 0.5, 2.0, 6.0]), ("i4", -1, [0, 4, 8, 0, 2, 6])):
            for m in (1 << 5, 1 << 2, (1 << 5) | 1):
                miss = [bool(m >> i & 1) for i in range(6)]
                _make_template(os.path.join(work, "in.nc"), (2, 3), {"v": (nctype, stored, miss, fillv)})
                for derived in ("fuzzy", "difference", "copy"):
                    p = Program(libraries=("mpilot.libraries.eems.basic", "mpilot.libraries.eems.fuzzy", "mpilot.libraries.eems.netcdf"), working_dir=work)
                    p.add_command(p.find_command_class("EEMSRead"), "R", {"InFileName": "in.nc", "InFieldName": "v"})
                    if derived == "fuzzy":
                        p.add_command(p.find_command_class("CvtToFuzzy"), "D", {"InFieldName": "R", "FalseThreshold": 0, "TrueThreshold": 8})  # -1, 0 and +1 all occur
                    elif derived == "difference":
                        p.add_command(p.find_command_class("EEMSRead"), "S", {"InFileName": "in.nc", "InFieldName": "v"})
                        p.add_command(p.find_command_class("AMinusB"), "D0", {"A": "R", "B": "S"})  # zeros
                        p.add_command(p.find_command_class("Sum"), "D", {"InFieldNames": ["D0", "R"]})
                    else:
                        p.add_command(p.find_command_class("Copy"), "D", {"InFieldName": "R"})
                    p.add_command(p.find_command_class("EEMSWrite"), "W", {"OutFileName": "out.nc", "OutFieldNames": ["D"], "DimensionFileName": "in.nc", "DimensionFieldName": "v"})
                    snapshot.remove_path(os.path.join(work, "out.nc"))
                    evals += 1
                    tag = {"nc_type": nctype, "file_fill_value": fillv, "stored": stored, "missing": miss, "derived_by": derived}
                    sample = tag
                    try:
                        with numpy.errstate(all="ignore"):
                            first = p.commands["D"].result.copy()
                            p.commands["W"].result
                    except MPilotError as exc:
                        viols.append(V("C18:chain:inherited-fill:raised:%s" % type(exc).__name__, "model raised %s" % str(exc).split("\n")[0][:160], **tag))
                        continue
                    res = _eems_read(work, "out.nc", "D", None, None)
                    want = numpy.ma.getmaskarray(first)
                    if res[0] == "err":
                        viols.append(V("C18:chain:inherited-fill:reread-raised:%s" % type(res[1]).__name__, "re-reading raised %s" % str(res[1]).split("\n")[0][:120], **tag))
                    elif (numpy.ma.getmaskarray(res[1]) != want).any():
                        viols.append(V("C18:chain:inherited-fill:missing-cells-differ", "cells present in the written result (values %r, missing %r) came back missing: %r" % (
                            numpy.ma.getdata(first).ravel().tolist(), want.ravel().tolist(), numpy.ma.getmaskarray(res[1]).ravel().tolist()), **tag))
                    elif not numpy.array_equal(numpy.ma.getdata(res[1])[~want], numpy.ma.getdata(first)[~want]):
                        viols.append(V("C18:chain:inherited-fill:values-differ", "values differ after the round trip", **tag))
                    else:
                        outcomes["chain:inherited-fill:ok"] = outcomes.get("chain:inherited-fill:ok", 0) + 1
    finally:
        import shutil
        shutil.rmtree(work, ignore_errors=True)
    return {"evals": evals, "nontrivial": evals, "judged": evals, "viols": viols[:30], "outcomes": outcomes, "sample": sample}


TEMPLATE_STYLES = ("plain", "packed", "packed-both", "fill", "fill-nan", "int", "unsigned", "attrs", "descending",
                   "format:NETCDF3_CLASSIC", "format:NETCDF3_64BIT_OFFSET", "format:NETCDF4_CLASSIC", "tvar-attrs", "missing-value-attr")  # the file flavour of the template is its own business


def _styled_template(path, style):
    """a 2 x 3 template whose coordinate variables are stored the ways real files store them"""
    from netCDF4 import Dataset

    with Dataset(path, "w", **({"format": style.split(":")[1]} if style.startswith("format:") else {})) as ds:
        ds.createDimension("y", 2)
        ds.createDimension("x", 3)
        y = ds.createVariable("y", "i2" if style == "packed-both" else "f8", ("y",))
        if style == "packed-both":
            y.scale_factor = 0.25
            y.add_offset = -10.0
        y.units = "degrees_north"
        y[:] = [40.0, 40.5]
        if style in ("packed", "packed-both"):
            x = ds.createVariable("x", "i2", ("x",))
            x.scale_factor = 0.5
            x.add_offset = 100.0
            x[:] = [100.0, 110.5, 121.0]
        elif style == "fill":
            x = ds.createVariable("x", "f8", ("x",), fill_value=-9999.0)
            x[:] = [1.0, 2.0, 3.0]
        elif style == "fill-nan":
            x = ds.createVariable("x", "f8", ("x",), fill_value=float("nan"))  # what xarray writes for coordinates by default
            x[:] = [1.0, 2.0, 3.0]
        elif style == "int":
            x = ds.createVariable("x", "i4", ("x",))
            x[:] = [1, 2, 3]
        elif style == "unsigned":
            x = ds.createVariable("x", "u1", ("x",))
            x[:] = [1, 200, 255]
        elif style == "attrs":
            x = ds.createVariable("x", "f4", ("x",))
            x.setncatts({"units": "degrees_east", "standard_name": "longitude", "axis": "X", "valid_range": numpy.array([-180.0, 180.0], dtype="f4"), "comment": "a, b; c"})
            x[:] = [-120.0, -119.75, -119.5]
        elif style == "missing-value-attr":
            # coordinates as CDO / NCO / older ESRI exports write them: a missing_value attribute (and attribute names that are also Python attributes)
            x = ds.createVariable("x", "f8", ("x",))
            x.setncatts({"missing_value": -9999.0, "units": "m", "name": "easting", "scale": "1:24000"})
            x[:] = [1.0, 2.0, 3.0]
            y.setncattr("missing_value", numpy.float64(-9999.0))
        elif style == "descending":
            x = ds.createVariable("x", "f8", ("x",))
            x[:] = [3.0, 2.0, 1.0]
        else:
            x = ds.createVariable("x", "f4", ("x",))
            x[:] = [1, 2, 3]
        t = ds.createVariable("t", "f8", ("y", "x"))
        if style == "tvar-attrs":
            # the template's DATA variable carries attributes that netCDF4 acts upon when reading: they are the template's, not the results'
            t.setncatts({"valid_min": 0.0, "valid_max": 5.0, "missing_value": 3.0, "scale_factor": 2.0, "add_offset": 1.0, "long_name": "template field"})
        t[:] = numpy.arange(6.0).reshape(2, 3)


def _raw_var(ds, name):
    v = ds[name]
    v.set_auto_maskandscale(False)
    return (v.dtype.str, numpy.asarray(v[:]).tolist(), {a: (numpy.asarray(v.getncattr(a)).tolist()) for a in v.ncattrs()})


def _run_templates(case):
    """the template's dimension variables must be copied UNCHANGED (stored numbers, storage type, attributes), however they are stored"""
    from netCDF4 import Dataset
    from mpilot.exceptions import MPilotError
    from ..vlib import const as C

    work = snapshot.scratch_dir("c18_")
    viols, outcomes = [], {}
    evals = 0
    sample = None
    try:
        for style in TEMPLATE_STYLES:
            _styled_template(os.path.join(work, "tpl.nc"), style)
            with Dataset(os.path.join(work, "tpl.nc")) as ds:
                want = {d: _raw_var(ds, d) for d in ("y", "x")}
            for kinds in (("f",), ("f", "i")):
                arrays = [numpy.ma.MaskedArray(numpy.array([0.5, -1.25, 3.0, 1e10, -0.0, 7.75]).reshape(2, 3), mask=numpy.array([0, 1, 0, 0, 0, 0], dtype=bool).reshape(2, 3)),
                          numpy.ma.MaskedArray(numpy.array([2, -1, 0, 123456, 5, -7], dtype=numpy.int64).reshape(2, 3))][:len(kinds)]
                names = ["R%d" % i for i in range(len(arrays))]
                p = _program(work)
                C.TABLE.clear()
                for nm, a in zip(names, arrays):
                    C.TABLE[nm] = (lambda a=a: a.copy())
                    p.add_command(p.find_command_class("ConstNF"), nm, {"Key": nm})
                p.add_command(p.find_command_class("EEMSWrite"), "W", {"OutFileName": "out.nc", "OutFieldNames": list(names), "DimensionFileName": "tpl.nc", "DimensionFieldName": "t"})
                evals += 1
                tag = {"template_style": style, "kinds": list(kinds), "template_coordinates": {d: list(want[d]) for d in want}}
                sample = {"template_style": style}
                if os.path.exists(os.path.join(work, "out.nc")):
                    os.remove(os.path.join(work, "out.nc"))
                try:
                    with numpy.errstate(all="ignore"):
                        p.commands["W"].result
                except MPilotError as exc:
                    viols.append(V("C18:write:template:%s:raised:%s" % (style, type(exc).__name__), "writing with a template whose coordinates are stored %r raised %s: %s" % (
                        style, type(exc).__name__, str(exc).split("\n")[0][:200]), **tag))
                    outcomes["templates:%s:raised" % style] = outcomes.get("templates:%s:raised" % style, 0) + 1
                    continue
                ok = True
                with Dataset(os.path.join(work, "out.nc")) as ds:
                    for d in ("y", "x"):
                        got = _raw_var(ds, d) if d in ds.variables else None
                        canon = lambda t: repr((t[0], t[1], sorted(t[2].items())))  # (the order of attributes means nothing)
                        if got is None or canon(got) != canon(want[d]):
                            viols.append(V("C18:write:template:%s:dimension-variable-differs" % style, "dimension variable %s written as %r, the template has %r" % (d, got, want[d]), **tag))
                            ok = False
                for nm, a, k in zip(names, arrays, kinds):
                    res = _eems_read(work, "out.nc", nm, "Float" if k == "f" else "Integer", None)
                    union = numpy.ma.getmaskarray(arrays[0]).ravel().tolist()
                    if res[0] == "err" or numpy.ma.getmaskarray(res[1]).ravel().tolist() != union or any(
                            (not u) and g != w for u, g, w in zip(union, numpy.ma.getdata(res[1]).ravel().tolist(), a.data.ravel().tolist())):
                        viols.append(V("C18:roundtrip:template:%s:differs" % style, "re-reading %s written with template style %r does not give the written values" % (nm, style), **tag))
                        ok = False
                outcomes["templates:%s:%s" % (style, "ok" if ok else "bad")] = outcomes.get("templates:%s:%s" % (style, "ok" if ok else "bad"), 0) + 1
    finally:
        import shutil
        shutil.rmtree(work, ignore_errors=True)
    return {"evals": evals, "nontrivial": evals, "judged": evals, "viols": viols, "outcomes": outcomes, "sample": sample}


def run(case):
    case = tuple(case)
    if case[0] == "templates":
        return _run_templates(case)
    if case[0] == "chain":
        return _run_chain(case)
    if case[0] == "read":
        return _run_read(case)
    if case[0] == "novar":
        return _run_novar(case)
    return _run_write((case[0], case[1], tuple(case[2]), case[3]))
