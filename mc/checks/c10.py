"""C10 — parsing delivers exactly what was written, regardless of layout; malformed text is rejected.

(a) value alphabet: every value of the int / decimal / unquoted / quoted (all strings of <=2, thorough <=3, symbols over an
    11-symbol alphabet + named cases) / list / tuple alphabets in canonical one-command contexts (first / last argument, inside a
    list), every rendering with <=1 layout deviation (thorough <=2);
(b) structural programs (1-3 commands, 0-3 arguments, nested lists <=3, empty lists, tuples, EEMS-2 form): every rendering with
    <=2 layout deviations, both base styles, plus CRLF;
(c) corruptions: every structural token ( ) [ ] = deleted or duplicated and every comma duplicated, in every canonical rendering
    -> must raise SyntaxError.
Oracle: the parse tree equals the generating AST (names, order, value types and values); see mc/ref/grammar.py.
"""
import itertools

from ..core import V
from ..ref import grammar as G

ID = "C10"
LEVEL = "exploration"
CHUNK = 1
RULE = ("cases = (abstract program, block of layouts); each layout is rendered to text and parsed with a fresh Parser(); the tree must "
        "equal the generating AST; corruption cases must raise SyntaxError; non-trivial = distinct rendered texts (counted by hash)")
ASSUMPTIONS = ["a fresh Parser() per text, as Program.from_source does (history effects are C11)",
               "bare strings ending in a number token, or containing colons inside lists, are outside the documented syntax and not generated"]


def BOUND(tier):
    return ("value alphabets x <=1 deviation, quoted strings <=2 symbols; 14 structural programs x <=2 deviations; all structural-token corruptions"
            if tier == "quick" else "value alphabets x <=2 deviations, quoted strings <=3 symbols; structural programs x <=2 deviations in 2 styles + CRLF x <=2")


def _vals(tier):
    vals = [("int", x) for x in G.INT_FORMS] + [("dec", x) for x in G.DEC_FORMS] + [("bare", x) for x in G.BARE_STRINGS]
    vals += [("q", x) for x in G.QUOTED_NAMED] + [("q", x) for x in G.quoted_strings(2 if tier == "quick" else 3)]
    vals += [("q", x) for x in G.BARE_STRINGS]
    lists = [("list", []), ("list", [("int", "1")]), ("list", [("int", "1"), ("dec", ".3"), ("int", "-2")]),
             ("list", [("list", [("int", "1"), ("int", "2")]), ("list", []), ("list", [("list", [("q", "deep")])])]),
             ("list", [("bare", "A_Fz"), ("bare", "B_Fz")]), ("list", [("q", "a, b"), ("q", "]"), ("bare", "two words")]),
             ("list", [("dec", "1.5e3"), ("bare", "5abc"), ("q", "")]),
             ("tuple", [("bare", "DisplayName", ("q", "The Command"))]), ("tuple", [("q", "A", ("q", "B")), ("bare", "C", ("bare", "D"))]),
             ("tuple", [("bare", "k1", ("int", "5")), ("q", "k 2", ("dec", "2.5")), ("bare", "k3", ("q", "x:y"))]),
             ("tuple", [("bare", "Color", ("bare", "Blue"))]), ("tuple", [("bare", "Visible", ("bare", "True")), ("bare", "False", ("bare", "no"))]),
             ("tuple", [("bare", "Kind", ("bare", "True north")), ("q", "True", ("q", "False"))]), ("list", [("bare", "True"), ("bare", "False"), ("bare", "True Color")]),
             ("tuple", [("bare", "Low", ("int", "-1")), ("bare", "High", ("dec", "+2.5")), ("q", "z", ("dec", "-.5")), ("bare", "n", ("int", "+7"))])]  # signed numbers as tuple values
    return vals + lists


def _contexts(v):
    """programs embedding value v"""
    ctx = [[("r", "Cmd", [("P", v), ("Q", ("int", "7"))])], [("r", "Cmd", [("Q", ("int", "7")), ("P", v)])]]
    in_list_ok = v[0] in ("int", "dec", "q", "list") or (v[0] == "bare" and ":" not in v[1])
    if in_list_ok and v[0] != "tuple":
        ctx.append([("r", "Cmd", [("P", ("list", [v, ("int", "1")]))])])
        ctx.append([("r", "Cmd", [("P", ("list", [("int", "1"), v]))])])
    return ctx


STRUCT = [
    [("A", "Cmd", [])],
    [("A", "Cmd", [("P", ("int", "5"))])],
    [("A", "Cmd", [("P", ("bare", "two words")), ("Q", ("q", "x")), ("R", ("dec", "5.4"))])],
    [("A", "Cmd", [("P", ("bare", "/a/b c.txt"))]), ("B", "Other", [("In", ("bare", "A")), ("L", ("list", [("bare", "A"), ("bare", "B")]))])],
    [("A", "EEMSRead", [("InFileName", ("q", "input.csv")), ("InFieldName", ("q", "A")), ("DataType", ("q", "Integer"))]),
     ("A_Fz", "CvtToFuzzy", [("InFieldName", ("bare", "A")), ("TrueThreshold", ("int", "10")), ("FalseThreshold", ("int", "2"))]),
     ("U", "FuzzyUnion", [("InFieldNames", ("list", [("bare", "A_Fz"), ("bare", "A_Fz")]))])],
    [("x1", "C", [("L", ("list", [("list", [("int", "1"), ("list", [("dec", ".5"), ("q", "s")])]), ("list", [])]))])],
    [("m", "C", [("Metadata", ("tuple", [("bare", "DisplayName", ("q", "The Command")), ("q", "K 2", ("bare", "v"))])), ("Z", ("bare", "Foo"))])],
    [(None, "READ", [("InFileName", ("bare", "C:\\path\\to\\file.gdb")), ("InFieldName", ("bare", "Foo"))])],
    [(None, "READ", [("InFieldName", ("bare", "Foo"))]), ("B", "Cmd", [("P", ("bare", "Foo"))])],
    [("B", "Cmd", [("P", ("bare", "Foo"))]), (None, "SUM", [("InFieldNames", ("list", [("bare", "B"), ("bare", "B")])), ("NewFieldName", ("bare", "S"))])],
    [("a", "C", [("P", ("q", "# not a comment")), ("Q", ("q", "a = (b, [c])"))]), ("b", "C", [("P", ("bare", "caf\u00e9 au lait"))])],
    [("a", "C", [("E", ("list", []))]), ("b", "C", []), ("c", "C", [("W", ("list", [("dec", "1."), ("int", "+2"), ("dec", "-.5")]))])],
    [("A", "Cmd", [("P", ("bare", "007x")), ("Q", ("bare", "1.50abc")), ("R", ("bare", "http://h.org/p"))])],
    [("A", "Cmd", [("P", ("q", "\"x\"")), ("Q", ("q", "ab\"")), ("R", ("q", "l1\nl2"))])],
    [("A", "Cmd", [("P", ("q", "l1\nl2\n")), ("Q", ("int", "1"))]), ("B", "Cmd", [("P", ("list", [("q", "x\ny"), ("int", "2")]))])],
]


def cases(tier):
    k_val = 1 if tier == "quick" else 2
    vals = _vals(tier)
    for vi in range(len(vals)):
        yield ("val", vi, k_val, tier)
    for si in range(len(STRUCT)):
        its = G.items_of(STRUCT[si])
        n = len(list(i for i, it in enumerate(its) if len(it.alts) > 1))
        # shard the 2-deviation space by the first deviating item
        for style in (("spaced",) if tier == "quick" else ("spaced", "compact")):
            for first in range(n):
                yield ("struct", si, style, first, 2, False)
            yield ("struct", si, style, -1, 1, True)
    for si in range(len(STRUCT)):
        yield ("corrupt-struct", si)
    for si in range(len(STRUCT)):
        yield ("reuse", si)
    for vi in range(0, len(vals), 50):
        yield ("corrupt-val", vi, min(len(vals), vi + 50), tier)


def _parse(text):
    from mpilot.parser.parser import Parser

    return Parser().parse(text)


def _check_text(prog, its, layout, crlf, viols, seen, outcomes, what):
    text, starts = G.render(its, layout, crlf)
    h = hash(text)
    new = h not in seen
    seen.add(h)
    want = G.strip_lines(G.expected(prog, its, starts))
    want_version = 2 if any(c[0] is None for c in prog) else 3
    tag = {"text": text, "layout": {str(k): its[k].alts[v] for k, v in (layout or {}).items()}, "crlf": crlf}
    try:
        pn = _parse(text)
    except SyntaxError as exc:
        viols.append(V("C10:parse:rejected-wellformed:" + _kind(its, layout, crlf), "well-formed text rejected (%s): %r" % (exc, text), **tag))
        outcomes["rejected"] = outcomes.get("rejected", 0) + 1
        return new
    except Exception as exc:
        viols.append(V("C10:parse:raw-exception:%s" % type(exc).__name__, "parser raised %r on %r" % (exc, text), **tag))
        outcomes["raw"] = outcomes.get("raw", 0) + 1
        return new
    got = G.strip_lines(G.tree_of(pn))
    if _norm(got) != _norm(want):
        viols.append(V("C10:parse:wrong-tree:" + _diff_kind(got, want), "parsed %r, written %r; text %r" % (
            _first_diff(got, want)[0], _first_diff(got, want)[1], text), **tag))
        outcomes["wrong"] = outcomes.get("wrong", 0) + 1
    elif pn.version != want_version:
        viols.append(V("C10:parse:wrong-version", "version %r for %r" % (pn.version, text), **tag))
    else:
        kinds = sorted({x[0] if isinstance(x, tuple) and x and isinstance(x[0], str) else "?" for _, x in _leaves(_norm(got)) if isinstance(x, tuple)})
        lab = "ok:v%d:%s" % (pn.version, "+".join(k for k in kinds if k in ("int", "float", "str", "list", "dict")) or "no-values")
        outcomes[lab] = outcomes.get(lab, 0) + 1
    return new


def _norm(t):
    def n(x):
        if isinstance(x, float):
            return ("float", repr(x))
        if isinstance(x, (list, tuple)):
            return tuple(n(y) for y in x)
        if isinstance(x, dict):
            return tuple(sorted((k, n(v)) for k, v in x.items()))
        return x
    return n(t)


def _kind(its, layout, crlf):
    """coarse discriminator: the meta kinds of the deviating items"""
    if not layout:
        return "crlf" if crlf else "canonical"
    ks = sorted({(its[i].meta if isinstance(its[i].meta, str) else its[i].meta[0]) for i in layout})
    return "+".join(ks) + ("+crlf" if crlf else "")


def _leaves(t):
    out = []

    def rec(x, path):
        if isinstance(x, (list, tuple)) and not (len(x) == 2 and isinstance(x[0], str) and x[0] in ("int", "float", "str", "bool", "NoneType") and not isinstance(x[1], (list, dict))):
            for i, y in enumerate(x):
                rec(y, path + (i,))
        elif isinstance(x, dict):
            for k in sorted(x):
                rec(x[k], path + (k,))
        else:
            out.append((path, x))
    rec(t, ())
    return out


def _first_diff(got, want):
    a, b = _leaves(_norm(got)), _leaves(_norm(want))
    for (pa, xa), (pb, xb) in zip(a, b):
        if (pa, xa) != (pb, xb):
            return xa, xb
    return (got, want)


def _diff_kind(got, want):
    xa, xb = _first_diff(got, want)
    if isinstance(xb, tuple) and len(xb) == 2 and isinstance(xa, tuple) and len(xa) == 2:
        if xa[0] != xb[0]:
            return "type-%s-for-%s" % (xa[0], xb[0])
        if xb[0] == "str":
            a, b = xa[1], xb[1]
            if isinstance(a, str) and isinstance(b, str):
                if a.replace(" ", "") == b.replace(" ", "") and len(a) < len(b):
                    return "str-lost-whitespace"
                if a.strip() == b and a != b:
                    return "str-extra-whitespace"
                if any(ord(c) > 127 for c in b):
                    return "str-non-ascii"
                if "\\" in b or '"' in b or "'" in b:
                    return "str-quote-or-backslash"
                if any(c.isdigit() for c in b):
                    return "str-digits"
            return "str-value"
        return "%s-value" % xb[0]
    return "structure"


def _run_val(case):
    _, vi, k, tier = case
    v = _vals(tier)[vi]
    viols, outcomes, seen = [], {}, set()
    evals = 0
    sample = None
    for prog in _contexts(v):
        its = G.items_of(prog)
        for lay in itertools.chain([None], G.deviations(its, k)):
            _check_text(prog, its, lay, False, viols, seen, outcomes, "val")
            evals += 1
        _check_text(prog, its, None, True, viols, seen, outcomes, "val")
        evals += 1
        sample = {"program": G.render(its)[0]}
        if len(viols) > 60:
            del viols[60:]
    return {"evals": evals, "nontrivial": len(seen), "judged": evals, "viols": viols, "outcomes": outcomes, "sample": sample}


def _run_struct(case):
    _, si, style, first, k, crlf = case
    prog = STRUCT[si]
    its = G.items_of(prog, style)
    idx = [i for i, it in enumerate(its) if len(it.alts) > 1]
    viols, outcomes, seen = [], {}, set()
    evals = 0
    if first < 0:
        for c in (False, True):
            for lay in itertools.chain([None], G.deviations(its, 1)):
                _check_text(prog, its, lay, c, viols, seen, outcomes, "struct")
                evals += 1
    else:
        i0 = idx[first]
        for a0 in range(1, len(its[i0].alts)):
            for j in idx[first + 1:]:
                for a1 in range(1, len(its[j].alts)):
                    _check_text(prog, its, {i0: a0, j: a1}, False, viols, seen, outcomes, "struct")
                    evals += 1
            if len(viols) > 60:
                del viols[60:]
    return {"evals": max(evals, 1), "nontrivial": len(seen), "judged": evals, "viols": viols, "outcomes": outcomes,
            "sample": {"program": G.render(its)[0], "first_deviating_item": first, "style": style}}


def _corruptions(its):
    """texts obtained by deleting/duplicating one structural token of the canonical rendering"""
    for i, it in enumerate(its):
        if it.meta in ("lparen", "rparen", "eq", "rbrack") or (isinstance(it.meta, tuple) and it.meta[0] == "val" and it.alts[0] == "["):
            for op in ("delete", "duplicate"):
                parts = []
                for j, jt in enumerate(its):
                    t = jt.alts[0]
                    if j == i:
                        t = "" if op == "delete" else t + " " + t
                    parts.append(t)
                yield op, it.alts[0], "".join(parts)
        elif it.meta == "comma":
            parts = [jt.alts[0] + (" ," if j == i else "") for j, jt in enumerate(its)]
            yield "duplicate", ",", "".join(parts)


def _run_corrupt(progs):
    viols, outcomes = [], {}
    evals = 0
    seen = set()
    sample = None
    for prog in progs:
        its = G.items_of(prog)
        for op, tok, text in _corruptions(its):
            evals += 1
            seen.add(hash(text))
            sample = {"corruption": op + " " + tok, "text": text}
            try:
                pn = _parse(text)
                viols.append(V("C10:corrupt:accepted:%s-%s" % (op, tok), "malformed text accepted (%s %r): %r -> %r" % (op, tok, text, G.strip_lines(G.tree_of(pn))), text=text))
                outcomes["accepted"] = outcomes.get("accepted", 0) + 1
            except SyntaxError:
                outcomes["SyntaxError"] = outcomes.get("SyntaxError", 0) + 1
            except Exception as exc:
                viols.append(V("C10:corrupt:raw-exception:%s" % type(exc).__name__, "malformed text %r raised %r instead of SyntaxError" % (text, exc), text=text))
    return {"evals": max(evals, 1), "nontrivial": len(seen), "judged": evals, "viols": viols[:60], "outcomes": outcomes, "sample": sample}


def _run_reuse(case):
    """one Parser object reused: a rejected (corrupted) text, then the well-formed text: the tree must be what a fresh parser delivers"""
    from mpilot.parser.parser import Parser

    prog = STRUCT[case[1]]
    its = G.items_of(prog)
    text, starts = G.render(its)
    want = _norm(G.strip_lines(G.expected(prog, its, starts)))
    viols, outcomes = [], {}
    evals = 0
    seen = set()
    sample = None
    # rejected texts: every one-token corruption; the text preceded by a command whose list mixes plain items and key:value pairs (an error
    # the parser records and reports at the end); and BOTH defects in one text (recorded error first, then the hard syntax error)
    mix = "Zq = Cmd(P = [1, K: v])\n"
    bads = [bad for _, _, bad in _corruptions(its)]
    bads = bads + [mix + text] + [mix + bad for bad in bads] + [bad.rstrip("\n") + "\n" + mix for bad in bads[:6]]
    for bad in bads:
        parser = Parser()
        try:
            parser.parse(bad)
            continue
        except SyntaxError:
            pass
        except Exception:
            continue
        for again in (1, 2):
            evals += 1
            seen.add(hash((bad, again)))
            sample = {"first_text": bad, "then": text}
            try:
                got = _norm(G.strip_lines(G.tree_of(parser.parse(text))))
            except Exception as exc:
                viols.append(V("C10:reuse:well-formed-rejected-after-error:%s" % type(exc).__name__, "after rejecting %r the same Parser rejects %r: %r" % (bad, text, exc), first=bad, then=text))
                break
            if got != want:
                viols.append(V("C10:reuse:tree-depends-on-earlier-rejected-text", "after rejecting %r the same Parser parses %r as %r" % (bad, text, got), first=bad, then=text))
                break
            outcomes["reuse:ok"] = outcomes.get("reuse:ok", 0) + 1
    return {"evals": max(evals, 1), "nontrivial": len(seen), "judged": evals, "viols": viols[:20], "outcomes": outcomes, "sample": sample}


def run(case):
    case = tuple(case)
    if case[0] == "reuse":
        return _run_reuse(case)
    if case[0] == "val":
        return _run_val(case)
    if case[0] == "struct":
        return _run_struct(case)
    if case[0] == "corrupt-struct":
        return _run_corrupt([STRUCT[case[1]]])
    vals = _vals(case[3])[case[1]:case[2]]
    return _run_corrupt([_contexts(v)[0] for v in vals])
