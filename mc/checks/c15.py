"""C15 — serialising a program and loading it back gives the same program.

Programs over the verif-side Echo library (one parameter of every kind incl. nested lists, references, metadata) and over the
built-in libraries, built (a) from source text and (b) through add_command with raw Python values (thorough: already-clean values).
Value alphabets: all strings of <=2 (thorough <=3) symbols over a 12-symbol alphabet (quotes, backslash, delimiters, non-ASCII,
newline, tab) + named paths; ints and floats of every magnitude incl. exponent forms; booleans in every accepted form; nested
lists; metadata with quotes and colons.
Oracle: Q = from_source(P.to_string()) has the same result names in order, command classes, argument names, values equal after
cleaning by the declared parameter, equal run() results.  (Whether Q.to_string() == P.to_string() is recorded as an outcome only.)
"""
import io
import itertools
import math
import os

import numpy

from ..core import V
from .. import snapshot
from ..ref import grammar as G
from . import c11

ID = "C15"
LEVEL = "exploration"
CHUNK = 1
LIBS = ("mpilot.libraries.eems.basic", "mpilot.libraries.eems.csv", "mpilot.libraries.eems.fuzzy", "mc.vlib.echo")
RULE = ("cases = (parameter slot, block of values, build mode); every value is placed in an Echo program (alone, in a list, in "
        "metadata) built from source or through add_command, serialised, re-loaded and compared; non-trivial = distinct programs")
ASSUMPTIONS = ["values are compared after cleaning by the declared parameter (nan equals nan); working directory identical for both programs"]
SYMS = ["a", " ", '"', "'", "\\", ",", "]", ":", "#", "\u00e9", "\n", "\t", "\U0001f600"]
NAMED = ["C:\\temp\\new.csv", "/usr/share/data.csv", "He said \"hi\"", "it's", "a, b", "[x]", "k: v", "# no comment", "caf\u00e9 \u20ac", "", "  lead and trail  ",
         "line1\nline2", "ends\\", "=(", "True", "5", "1e-05", "x" * 60, "\\n", "\\\\server\\share",
         "Habitat score \U0001f600", "\U0001d11e\U00020000", "\u4e2d\u6587", "\x00\x07\x1b", "\x7f\x80\xff", "\u2028 sep", "True Color",
         # invisible / formatting characters that text tools like to strip: byte-order mark (inside a value), zero-width and no-break spaces, soft hyphen
         # a backslash in front of the letters that start an escape sequence (\U \u \x \N ...): Windows paths, share names, column names
         "C:\\Users\\alice\\data.csv", "\\\\server\\gis\\Nevada\\unit7\\xsections", "raw\\units", "\\N", "\\x4", "\\u12", "a\\", "\\0", "\\a\\b\\f\\v\\r",
         # text that is not in Unicode normal form C (decomposed accents, compatibility characters): a value is its code points
         "A\u0301rea", "e\u0301te\u0301", "\u212b", "\ufb01le", "\u1e9b\u0323",
         # characters that mean something to the formatting mini-languages of Python (str.format, %-formatting, string.Template)
         "{0}", "{}", "{1, 2, 3}", "slope_{{copy}}.csv", "{name}", "}{", "100%", "%s of %d", "%(x)s", "$HOME/data", "${x}",
         "\ufeffelev", "a\ufeffb", "end\ufeff", "\u200bzw", "nb\u00a0sp", "soft\u00adhyphen", "\u2060wj", "\ufffd"]
INTS = [0, 1, -1, 7, -12, 10 ** 6, 2 ** 53, -(2 ** 63), 10 ** 22]
FLOATS = [0.5, -0.0, 0.0, 1e-05, 1.5e-07, 1e22, 1e300, 123456789.125, -2.5, 1e16, 1.0, 5e-324, float("inf"), float("-inf"), float("nan"), 0.1, 1 / 3.0]
BOOLS = [True, False, "true", "false", "TRUE", "False", 0, 1, "0", "1"]


# (slot, value) atoms for the pairwise-interaction space: equal-but-different values (True/1/1.0/"1"/"True"), shared strings in different roles
PAIR_ATOMS = [("B", True), ("B", False), ("N", 1), ("N", 0), ("N", 1.0), ("N", 0.0), ("N", -1), ("S", "1"), ("S", "True"), ("S", "1.0"), ("S", "a"),
              ("LN", [1, 0, 1.0]), ("LN", [0.0, 2]), ("LB", [True, False]), ("LB", [1, 0]), ("LS", ["1", "True", "a"]), ("P", "/abs/a"), ("P", "/abs/1"),
              ("LL", [[1], [1.0, 0]]), ("DT", "Float"), ("Metadata", {"a": "1", "True": "a"})]


def BOUND(tier):
    return ("strings <=2 symbols over 12 symbols + 20 named; 9 ints, 17 floats, 10 boolean forms; nested lists <=3; source and API builds"
            if tier == "quick" else "strings <=3 symbols (1884) + named; numbers; booleans; nested lists <=3; source, API-raw and API-clean builds")


def _strings(tier):
    out = list(NAMED)
    for n in range(1, (2 if tier == "quick" else 3) + 1):
        for t in itertools.product(SYMS, repeat=n):
            out.append("".join(t))
    return out


def cases(tier):
    S = _strings(tier)
    for lo in range(0, len(S), 24):
        for mode in ("api", "src"):
            yield ("strings", lo, min(len(S), lo + 24), mode, tier)
    for mode in ("api", "src"):
        yield ("numbers", mode, tier)
        yield ("bools", mode, tier)
        yield ("lists", mode, tier)
        yield ("refs", mode, tier)
        yield ("paths", mode, tier)
    for mode in ("api", "src"):
        for first in range(len(PAIR_ATOMS)):
            yield ("pairs", mode, first)
    yield ("clean-api", tier)
    for lib in ("csv", "netcdf"):
        yield ("datatypes", lib, tier)
    for mi in range(len(c11.MODELS)):
        yield ("builtin", mi, tier)
    for mode in ("api", "src"):
        yield ("edits", mode, tier)


# ---------------------------------------------------------------------------------------------

def _new(work):
    from mpilot.program import Program

    return Program(libraries=LIBS, working_dir=work)


def _src_value(v):
    """AST value (mc/ref/grammar) writing python value v in source text"""
    if isinstance(v, bool):
        return ("bare", "True" if v else "False")
    if isinstance(v, int):
        return ("int", str(v))
    if isinstance(v, float):
        r = repr(v)
        if v != v or v in (float("inf"), float("-inf")):
            return ("bare", r)
        if "." not in r.split("e")[0]:
            r = r.split("e")[0] + ".0" + ("e" + r.split("e")[1] if "e" in r else "")
        return ("dec", r)
    if isinstance(v, str):
        return ("q", v)
    if isinstance(v, list):
        return ("list", [_src_value(x) for x in v])
    if isinstance(v, dict):
        return ("tuple", [("q", k, ("q", x)) for k, x in v.items()])
    if isinstance(v, tuple) and v[0] == "ref":
        return ("bare", v[1])
    raise ValueError(v)


def _api_value(v):
    if isinstance(v, tuple) and v[0] == "ref":
        return v[1]
    if isinstance(v, list):
        return [_api_value(x) for x in v]
    return v


def _build(work, spec, mode):
    """spec: list of (result_name, {arg: python value}) over Echo"""
    from mpilot.program import Program

    if mode == "src":
        prog = [(name, "Echo", [(an, _src_value(v)) for an, v in args.items()]) for name, args in spec]
        text = G.render(G.items_of(prog))[0]
        return Program.from_source(text, libraries=LIBS, working_dir=work), text
    p = _new(work)
    cls = p.find_command_class("Echo")
    for name, args in spec:
        p.add_command(cls, name, {an: _api_value(v) for an, v in args.items()})
    return p, None


def _eq(a, b):
    if isinstance(a, float) and isinstance(b, float):
        return (a != a and b != b) or (a == b and math.copysign(1, a) == math.copysign(1, b))
    if isinstance(a, (int, float)) and isinstance(b, (int, float)) and not isinstance(a, bool) and not isinstance(b, bool):
        return a == b and isinstance(a, float) == isinstance(b, float)
    if isinstance(a, (list, tuple)) and isinstance(b, (list, tuple)):
        return len(a) == len(b) and all(_eq(x, y) for x, y in zip(a, b))
    if isinstance(a, dict) and isinstance(b, dict):
        return a.keys() == b.keys() and all(_eq(a[k], b[k]) for k in a)
    if isinstance(a, numpy.ndarray) or isinstance(b, numpy.ndarray):
        if not (isinstance(a, numpy.ndarray) and isinstance(b, numpy.ndarray)) or a.shape != b.shape:
            return False
        ma, mb = numpy.ma.getmaskarray(a), numpy.ma.getmaskarray(b)
        return bool((ma == mb).all()) and bool(numpy.all(numpy.ma.filled(a, 0) == numpy.ma.filled(b, 0)))
    return type(a) == type(b) and a == b


def _clean_all(p):
    from mpilot.commands import Command

    def plain(v):
        if isinstance(v, Command):
            return ("ref", v.result_name)
        if isinstance(v, (list, tuple)):
            return [plain(x) for x in v]
        return v

    out = []
    for name, cmd in p.commands.items():
        args = []
        for a in cmd.arguments:
            param = cmd.inputs.get(a.name)
            args.append((a.name, plain(param.clean(a.value, p, None)) if param is not None else a.value))
        out.append((name, type(cmd).__name__, args))
    return out


def roundtrip(p, viols, tag, libs=LIBS, work=None, run=True):
    """serialise p, load it back, compare.  Returns outcome label."""
    from mpilot.program import Program
    from mpilot.exceptions import MPilotError

    try:
        text = p.to_string()
    except Exception as exc:
        viols.append(V("C15:to_string:raised:" + type(exc).__name__, "to_string raised %r" % (exc,), **tag))
        return "to_string-raised"
    tag = dict(tag, serialised=text)
    try:
        want = _clean_all(p)
    except MPilotError:
        return "original-invalid"  # the original program's own arguments do not clean: nothing to preserve
    except Exception as exc:
        viols.append(V("C15:original:clean-raised:%s:%s" % (type(exc).__name__, _what(tag)), "cleaning the arguments of the original program raised %r" % (exc,), **tag))
        return "original-clean-raised"
    try:
        q = Program.from_source(text, libraries=libs, working_dir=work)
    except SyntaxError as exc:
        viols.append(V("C15:reload:syntax-error:" + _what(tag), "serialised text does not parse (%s): %r" % (exc, text), **tag))
        return "reload-syntax-error"
    except Exception as exc:
        viols.append(V("C15:reload:raised:%s:%s" % (type(exc).__name__, _what(tag)), "loading the serialised text raised %r: %r" % (exc, text), **tag))
        return "reload-raised"
    try:
        got = _clean_all(q)
    except Exception as exc:
        viols.append(V("C15:reload:arguments-do-not-clean:%s:%s" % (type(exc).__name__, _what(tag)), "arguments of the reloaded program do not clean (%r): %r" % (exc, text), **tag))
        return "reload-unclean"
    if [(n, c, [a for a, _ in args]) for n, c, args in got] != [(n, c, [a for a, _ in args]) for n, c, args in want]:
        viols.append(V("C15:roundtrip:structure-differs", "commands/argument names differ: %r vs %r" % (got, want), **tag))
        return "structure-differs"
    for (n, c, ga), (_, _, wa) in zip(got, want):
        for (an, gv), (_, wv) in zip(ga, wa):
            if not _eq(gv, wv):
                viols.append(V("C15:roundtrip:value-differs:" + _what(tag), "%s.%s is %r after the round trip, was %r; text %r" % (n, an, gv, wv, text), **tag))
                return "value-differs"
    if run:
        def outcome(prog):
            try:
                with numpy.errstate(all="ignore"):
                    prog.run()
            except Exception as exc:
                return type(exc).__name__
            return None

        rp, rq = outcome(p), outcome(q)
        if rp != rq:
            viols.append(V("C15:roundtrip:run-outcome-differs:" + _what(tag), "running the original %s, running the reloaded program %s" % (
                "raised " + rp if rp else "succeeded", "raised " + rq if rq else "succeeded"), **tag))
            return "run-outcome-differs"
        if rp is not None:
            return "run-raised:" + rp
        for n in p.commands:
            if not _eq(p.commands[n].result, q.commands[n].result):
                viols.append(V("C15:roundtrip:results-differ", "result %s differs after the round trip" % n, **tag))
                return "results-differ"
    try:
        if q.to_string() != text:
            return "ok (text not a fixpoint: not demanded by the statement)"
    except Exception as exc:
        viols.append(V("C15:to_string:raised-on-reloaded:" + type(exc).__name__, "to_string of the reloaded program raised %r" % (exc,), **tag))
    return "ok"


def _what(tag):
    """coarse discriminator of the value class (keys must stay few and stable)"""
    k = tag.get("kind", "?")
    if "nested" in k:
        return "nested-list"
    if k.startswith("string"):
        feats = k.split(":")[1]
        return "string-with-" + ("backslash" if "backslash" in feats else "dquote" if "dquote" in feats else "control" if "control" in feats else
                                 "non-ascii" if "non-ascii" in feats else "blank-edge" if "blank" in feats else "plain")
    if k.startswith("number"):
        return k.split(":")[1]
    if k.startswith("pair"):
        return "value-combination"
    if k.startswith("edit-history"):
        return "after-edit-history"
    return k.split(":")[0]


def _kind_of_string(s):
    ks = []
    if "\\" in s:
        ks.append("backslash")
    if '"' in s:
        ks.append("dquote")
    if "\n" in s or "\t" in s:
        ks.append("control")
    if any(ord(c) > 127 for c in s):
        ks.append("non-ascii")
    if s != s.strip() or s == "":
        ks.append("blank-edge")
    return "+".join(ks) or "plain"


def _run_specs(specs, mode, work, viols, outcomes):
    """specs: iterable of (kind, spec)"""
    n = 0
    sample = None
    for kind, spec in specs:
        tag = {"kind": kind, "mode": mode, "spec": repr(spec)[:300]}
        n += 1
        try:
            p, text = _build(work, spec, mode)
        except Exception as exc:
            outcomes["build-failed:" + type(exc).__name__] = outcomes.get("build-failed:" + type(exc).__name__, 0) + 1
            continue
        if text:
            tag["source"] = text
        oc = roundtrip(p, viols, tag, work=work)
        lab = "%s:%s:%s" % (oc.split(" ")[0], mode, _what(tag))
        outcomes[lab] = outcomes.get(lab, 0) + 1
        sample = tag
        if len(viols) > 80:
            del viols[80:]
    return n, sample


def run(case):
    case = tuple(case)
    work = snapshot.scratch_dir("c15_")
    viols, outcomes = [], {}
    try:
        if case[0] == "strings":
            _, lo, hi, mode, tier = case
            S = _strings(tier)[lo:hi]

            def specs():
                for s in S:
                    k = "string:" + _kind_of_string(s)
                    yield k, [("r", {"S": s})]
                    yield k + ":in-list", [("r", {"LS": [s, "z"], "N": 1})]
                    yield k + ":in-nested-list", [("r", {"LLS": [[[s], ["y"]], []]})]
                    yield k + ":in-metadata", [("r", {"N": 1, "Metadata": {"Key": s}})]
                    yield k + ":as-path", [("r", {"P": "/abs/" + s})] if "\n" not in s else [("r", {"S": s})]
            n, sample = _run_specs(specs(), mode, work, viols, outcomes)
        elif case[0] == "numbers":
            mode = case[1]

            def specs():
                for x in INTS + FLOATS:
                    k = "number:" + ("int" if isinstance(x, int) else ("float-exp" if "e" in repr(x) else "float" if x == x and abs(x) != float("inf") else "float-nonfinite"))
                    yield k, [("r", {"N": x})]
                    yield k + ":in-list", [("r", {"LN": [x, 1, 2.5]})]
                    yield k + ":in-nested-list", [("r", {"LL": [[x], [1, 2], []]})]
                    yield k + ":as-string-param", [("r", {"S": x})]
            n, sample = _run_specs(specs(), mode, work, viols, outcomes)
        elif case[0] == "bools":
            mode = case[1]

            def specs():
                for b in BOOLS:
                    if mode == "src" and isinstance(b, str):
                        yield "bool:word", [("r", {"B": ("ref", b)})]
                    else:
                        yield "bool:" + type(b).__name__, [("r", {"B": b})]
                    yield "bool:in-list", [("r", {"LB": [b if not isinstance(b, str) or mode == "api" else ("ref", b), True]})]
            n, sample = _run_specs(specs(), mode, work, viols, outcomes)
        elif case[0] == "lists":
            mode = case[1]

            def specs():
                for L in ([], [1], [1, 2.5, -3], [[1, 2], [3]], [[]], [[1.5e-07], [], [2, 3]]):
                    if not L or not isinstance(L[0], list):
                        yield "list:numbers", [("r", {"LN": L})]
                    if all(isinstance(x, list) for x in L):
                        yield "list:nested", [("r", {"LL": L})]
                for L in ([], ["a"], ["a b", "c,d", "e]"], ["", " "]):
                    yield "list:strings", [("r", {"LS": L})]
                for L in ([[["a"], ["b c"]], [["d"]]], [[[]]], []):
                    yield "list:nested3", [("r", {"LLS": L})]
                # LONG lists (a serialiser may fold them over several lines): string items with blanks, of several lengths so that a
                # line break lands inside an item for some of them; long number and reference-free lists as well
                for k in (3, 5, 7, 11, 13):
                    yield "list:long-strings", [("r", {"LS": ["%s region %d" % ("South Coast Ranges"[:k + i % 5], i) for i in range(12)]})]
                    yield "list:long-untyped", [("r", {"L": ["name with blanks %d %s" % (i, "x" * (k % 4)) for i in range(9)]})]
                yield "list:long-numbers", [("r", {"LN": [i + 0.125 for i in range(40)]})]
                for md in ({}, {"DisplayName": "The Command"}, {"A": "B", "C": "d e"}, {"k 1": "v:1", "k2": "say \"x\""}, {"K": "a\\b"},
                           {"DisplayName": "Tree cover\n(percent of cell)"}, {"DisplayName": "# looks like a comment", "Note": "l1\r\nl2"},
                           {"HucCode": "0102", "DataVersion": "2.10", "PlotId": "007", "Delta": "+5", "Exp": "1e3", "Threshold": "0.5"}):  # text that looks like a number stays that text
                    yield "metadata", [("r", {"N": 1, "Metadata": md})]
                for dt in ("Float", "Integer"):
                    yield "datatype:name", [("r", {"DT": dt})]
            n, sample = _run_specs(specs(), mode, work, viols, outcomes)
        elif case[0] == "pairs":
            mode, first = case[1], case[2]

            def specs():
                a = PAIR_ATOMS[first]
                for b in PAIR_ATOMS:
                    if b[0] == a[0]:
                        # same slot: two commands
                        yield "pair:two-commands", [("r1", {a[0]: a[1]}), ("r2", {b[0]: b[1]})]
                    else:
                        yield "pair:one-command", [("r", {a[0]: a[1], b[0]: b[1]})]
                        yield "pair:two-commands", [("r1", {a[0]: a[1]}), ("r2", {b[0]: b[1], "R": ("ref", "r1")})]
                    for c in PAIR_ATOMS[::4]:
                        if len({a[0], b[0], c[0]}) == 3:
                            yield "pair:triple", [("r", {a[0]: a[1], b[0]: b[1], c[0]: c[1]})]
            n, sample = _run_specs(specs(), mode, work, viols, outcomes)
        elif case[0] == "paths":
            mode = case[1]

            def specs():
                # paths in, beside and outside the working directory (a sibling folder whose NAME begins with the working directory's name
                # included), relative ones, and ones that need normalising: the cleaned value (and the file it names) survives the round trip
                wd = work
                for v in (wd + "/in.csv", wd + "_inputs/cells.csv", wd + "x.csv", wd, wd + "/", wd + "/sub/deep/a.csv", "rel/a.csv", "../up.csv", "./a.csv",
                          "a//b.csv", "sub/../a.csv", "/abs/elsewhere/a.csv", os.path.dirname(wd) + "/other.csv", "C:\\data\\a.csv"):
                    yield "path", [("r", {"P": v})]
                    yield "path:with-string", [("r", {"P": v, "S": v})]
            n, sample = _run_specs(specs(), mode, work, viols, outcomes)
        elif case[0] == "refs":
            mode = case[1]

            def specs():
                yield "refs:direct", [("a", {"N": 1}), ("b", {"R": ("ref", "a")})]
                yield "refs:forward", [("b", {"R": ("ref", "a")}), ("a", {"N": 1})]
                yield "refs:list", [("a", {"N": 1}), ("b", {"S": "x"}), ("c", {"LR": [("ref", "a"), ("ref", "b"), ("ref", "a")]})]
                yield "refs:diamond", [("a", {"N": 1}), ("b", {"R": ("ref", "a")}), ("c", {"R": ("ref", "a")}), ("d", {"LR": [("ref", "b"), ("ref", "c")], "R": ("ref", "a")})]
                yield "refs:order", [("zz", {"N": 1}), ("B", {"R": ("ref", "zz")}), ("a1", {"R": ("ref", "B")}), ("_x", {"LR": [("ref", "a1")]})]
                yield "refs:empty-list", [("a", {"LR": []})]
            n, sample = _run_specs(specs(), mode, work, viols, outcomes)
        elif case[0] == "edits":
            # BFS over edit histories of a program (documented API): to_string / run / del commands[x] / add_command, depth 3; in every
            # state the serialised text must load back to the program AS IT IS NOW
            mode = case[1]
            base_spec = [("a", {"N": 1, "S": "x y"}), ("b", {"R": ("ref", "a"), "LN": [1, 2.5]}), ("c", {"LR": [("ref", "a"), ("ref", "b")], "B": True})]
            events = [("str",), ("run",), ("del", "c"), ("del", "b"), ("add", "d", {"R": "a", "S": "new"}), ("add", "e", {"LS": ["q"]}), ("readd", "c", {"N": 7})]
            n = 0
            sample = None
            seen_states = set()
            frontier = [[]]
            for depth in range(3):
                nxt = []
                for hist in frontier:
                    for ev in events:
                        h = hist + [ev]
                        p, _ = _build(work, base_spec, mode)
                        cls = p.find_command_class("Echo")
                        ok = True
                        try:
                            for e in h:
                                if e[0] == "str":
                                    p.to_string()
                                elif e[0] == "run":
                                    p.run()
                                elif e[0] == "del":
                                    del p.commands[e[1]]
                                elif e[0] == "add":
                                    p.add_command(cls, e[1], dict(e[2]))
                                elif e[0] == "readd":
                                    if e[1] in p.commands:
                                        del p.commands[e[1]]
                                    p.add_command(cls, e[1], dict(e[2]))
                        except Exception:
                            ok = False  # e.g. deleting twice, duplicate add: not a state of interest
                        if not ok:
                            continue
                        n += 1
                        tag = {"kind": "edit-history", "mode": mode, "history": [list(map(str, e)) for e in h]}
                        oc = roundtrip(p, viols, tag, work=work, run=False)
                        outcomes["edits:" + oc.split(" ")[0]] = outcomes.get("edits:" + oc.split(" ")[0], 0) + 1
                        sample = tag
                        nxt.append(h)
                frontier = nxt
        elif case[0] == "clean-api":
            from mpilot.program import Program

            n = 0
            sample = None
            # already-clean values through the API: command objects for results, types for DataType, cleaned numbers
            p = _new(work)
            cls = p.find_command_class("Echo")
            p.add_command(cls, "a", {"N": 1})
            p.add_command(cls, "b", {"R": p.commands["a"], "LR": [p.commands["a"]]})
            p.add_command(cls, "c", {"DT": float})
            p.add_command(cls, "d", {"DT": int, "B": True, "LN": [1, 2.5]})
            for name in ("b", "c", "d"):
                sub = _new(work)
                sub.add_command(cls, "a", {"N": 1})
                arg = {k: (sub.commands["a"] if k == "R" else [sub.commands["a"]] if k == "LR" else v)
                       for k, v in {a.name: a.value for a in p.commands[name].arguments}.items()}
                sub.add_command(cls, name, arg)
                tag = {"kind": "clean-api:" + name, "mode": "api-clean", "spec": repr(arg)[:200]}
                oc = roundtrip(sub, viols, tag, work=work)
                outcomes[oc] = outcomes.get(oc, 0) + 1
                n += 1
                sample = tag
        elif case[0] == "datatypes":
            # the DataType argument of the two readers, given every accepted way (each name in source text and through the API, each
            # type object through the API), on data inside and outside the ranges some of the names check: the reloaded program must
            # run to the same outcome and the same result
            from mpilot.program import Program
            from . import c18

            n = 0
            sample = None
            lib = case[1]
            libs = ("mpilot.libraries.eems.%s" % lib,)
            datasets = {"unit": [0.5, -0.25, 1.0, 0.0], "wide": [1.5, -0.5, 7.0, 2.0], "negative": [-3.0, 2.0, -1.0, 0.25], "positive": [3.0, 2.6, 1.0, 0.25]}
            for dname, vals in datasets.items():
                if lib == "csv":
                    fname = "dt_%s.csv" % dname
                    with open(os.path.join(work, fname), "w") as f:
                        f.write("v\n" + "".join("%r\n" % x for x in vals))
                else:
                    fname = "dt_%s.nc" % dname
                    c18._make_template(os.path.join(work, fname), (2, 2), {"v": ("f8", vals, None, None)})
                probe = Program(libraries=libs, working_dir=work)
                cls = probe.find_command_class("EEMSRead")
                valid = cls.inputs["DataType"].valid_types
                forms = [("name", k) for k in valid]
                for t in valid.values():
                    if not any(f == ("type", t) for f in forms):
                        forms.append(("type", t))
                for kind, form in forms + [("absent", None)]:
                    if kind == "type" and min(vals) < 0 and all(k.startswith("Positive") for k, t in valid.items() if t is form):
                        # UNSPECIFIED: a type object that only the "Positive ..." names denote (numpy.uint) cannot be written without also
                        # asking for the positivity test, which the command keys on the NAME; on negative data no text means the same
                        outcomes["datatypes:unspecified-positive-only-type"] = outcomes.get("datatypes:unspecified-positive-only-type", 0) + 1
                        continue
                    for extra in ({}, {"MissingVal" if lib == "csv" else "MissingValue": 2.0}):
                        p = Program(libraries=libs, working_dir=work)
                        args = {"InFileName": fname, "InFieldName": "v"}
                        if kind != "absent":
                            args["DataType"] = form
                        args.update(extra)
                        p.add_command(cls, "r", args)
                        tag = {"kind": "datatype:%s:%s" % (lib, kind), "mode": "api", "DataType": repr(form), "data": vals, "arguments": sorted(extra)}
                        oc = roundtrip(p, viols, tag, libs=libs, work=work)
                        outcomes["datatypes:" + oc.split(" ")[0]] = outcomes.get("datatypes:" + oc.split(" ")[0], 0) + 1
                        n += 1
                        sample = tag
        else:
            from mpilot.program import Program
            import contextlib

            _, mi, tier = case
            with open(os.path.join(work, "input.csv"), "w") as f:
                f.write("A,B\n10,5\n8,-9999\n7,3\n5,10\n2,8\n")
            model = c11.MODELS[mi]
            n = 0
            sample = None
            csv = LIBS[:3]
            for layout in range(4):
                its = G.items_of(model)
                text = G.render(its, c11._layout(its, layout))[0]
                p = Program.from_source(text, libraries=csv, working_dir=work)
                tag = {"kind": "builtin-model", "mode": "src", "source": text}
                with contextlib.redirect_stdout(io.StringIO()):
                    oc = roundtrip(p, viols, tag, libs=csv, work=work)
                outcomes["builtin:" + oc] = outcomes.get("builtin:" + oc, 0) + 1
                n += 1
                sample = {"kind": "builtin-model", "layout": layout}
    finally:
        import shutil

        shutil.rmtree(work, ignore_errors=True)
    return {"evals": max(n, 1), "nontrivial": n, "judged": n, "viols": viols, "outcomes": outcomes, "sample": sample}
