"""C19 — command lookup depends only on the libraries requested.

Explicit-state search over process histories; every history is replayed in a FORKED child (the command registry and sys.modules
are process-global), so states never leak between histories.  Libraries: the built-in ones (basic, fuzzy, csv, netcdf and the
whole eems package) and generated user libraries with prefix-related names: module ulib (Alpha, Beta), module ulib_extra (Gamma),
module ulib2 (re-defines Alpha), package upkg (Eps) with sub-module upkg.sub (Delta), module upkgx (Zeta), package upkg2 whose only
command (Theta) lives in a sub-module that its __init__ does not import.
Events: Program(libraries=t) for every tuple t of <=2 libraries in every order (thorough: <=3 over a reduced menu), plain import
of a library, definition of an unrelated Command subclass (fresh name / a name that a library also uses), from_source+run of a
small model.  Every history ends with a Program(t) event whose outcome (name -> defining module map, or the construction error) is
the observation.  Oracle: outcome == outcome of the same event from the empty history == reference map computed from the known
contents of the libraries (module is a requested library or lies inside a requested package; conflicting names => MPilotError).
"""
import itertools
import os
import pickle
import sys
import types

from ..core import V
from .. import snapshot
from ..ref import sig as SIG

ID = "C19"
LEVEL = "model_checking"
CHUNK = 4
RULE = ("states = process histories (lists of events) each replayed in a forked child; transitions = events; every history ends in a "
        "Program(t) construction whose command map is compared with the reference and with the empty-history run; non-trivial = "
        "distinct histories")
ASSUMPTIONS = ["each history runs in its own forked process; numpy/netCDF4/ply are pre-imported (not MPilot libraries)",
               "the reference knows the commands of each library from mc/ref/sig.py and from the generated sources"]
E = "mpilot.libraries.eems"
BUILTIN = [E + ".basic", E + ".fuzzy", E + ".csv", E + ".netcdf", E]
USER = ["ulib", "ulib_extra", "ulib2", "upkg", "upkgx", "upkg.sub", "upkg2"]
MENU = BUILTIN + USER
USER_SRC = {
    "ulib.py": "from mpilot.commands import Command\n\nclass Alpha(Command):\n    def execute(self, **kw):\n        return 'ulib.Alpha'\n\nclass Beta(Command):\n    def execute(self, **kw):\n        return 'ulib.Beta'\n",
    "ulib_extra.py": "from mpilot.commands import Command\n\nclass Gamma(Command):\n    def execute(self, **kw):\n        return 'ulib_extra.Gamma'\n\n"
                     "class GammaTwin(Gamma):\n    \"\"\"the same computation under another name: execute() is inherited, not defined in the class body\"\"\"\n    display_name = 'Gamma twin'\n",
    "ulib2.py": "from mpilot.commands import Command\n\nclass Alpha(Command):\n    def execute(self, **kw):\n        return 'ulib2.Alpha'\n",
    "upkg/__init__.py": "from mpilot.commands import Command\n\nclass Eps(Command):\n    def execute(self, **kw):\n        return 'upkg.Eps'\n",
    "upkg/sub.py": "from mpilot.commands import Command\n\nclass Delta(Command):\n    def execute(self, **kw):\n        return 'upkg.sub.Delta'\n\n"
                   "class AddNumbers(Command):\n    name = 'Add'  # documented explicit naming: the command name differs from the class name\n    def execute(self, **kw):\n        return 'upkg.sub.Add'\n",
    "upkg2/__init__.py": "",
    "upkg2/deep.py": "from mpilot.commands import Command\n\nclass Theta(Command):\n    def execute(self, **kw):\n        return 'upkg2.deep.Theta'\n",
    # a site library that specialises a command of another library under the SAME name (derived class): still two libraries defining one name
    "ulib3.py": "from ulib import Alpha as _Base\n\nclass Alpha(_Base):\n    def execute(self, **kw):\n        return 'ulib3.Alpha'\n",
    "upkgx.py": "from mpilot.commands import Command\n\nclass Zeta(Command):\n    def execute(self, **kw):\n        return 'upkgx.Zeta'\n",
}
KNOWN = None


# libraries whose first use FAILS and which are then repaired (in a directory private to the one history, see run()):
#   ulate : does not exist until the event ("create-lib", "ulate") writes it;  upkgf : package whose sub-module upkgf.mod raises until the
#   event ("fix", "upkgf") creates the file it waits for.  A failed construction must leave nothing behind that changes a later one.
FLAKY_SRC = {
    "upkgf/__init__.py": "from mpilot.commands import Command\n\nclass Iota(Command):\n    def execute(self, **kw):\n        return 'upkgf.Iota'\n",
    "upkgf/mod.py": "import os\nif not os.path.exists(os.path.join(os.path.dirname(__file__), 'READY')):\n    raise RuntimeError('upkgf.mod is not ready')\n"
                    "from mpilot.commands import Command\n\nclass Lam(Command):\n    def execute(self, **kw):\n        return 'upkgf.mod.Lam'\n",
}
ULATE_SRC = "from mpilot.commands import Command\n\nclass Kappa(Command):\n    def execute(self, **kw):\n        return 'ulate.Kappa'\n"
FLAKY = {"ulate": ("create-lib", "ulate"), "upkgf": ("fix", "upkgf")}


def BOUND(tier):
    return ("all 1-event histories Program(t), t over all tuples of <=2 of 11 libraries (121); all 2-event histories: first event from 136 events, probe t over tuples of <=2 of 8 libraries + 3 singles (67); targeted histories of <=4 events with a class defined inside a used library, and with a construction that fails on an unimportable library which is then repaired (2 libraries x 5 failing prefixes x 4 probes x 3 shapes)"
            if tier == "quick" else "quick bound + histories of 3 events over a reduced menu (6 libraries, tuples <=2) + tuples of 3 user libraries")


def _known():
    global KNOWN
    if KNOWN is None:
        k = []
        for name, spec in SIG.COMMANDS.items():
            k.append((E + "." + spec["lib"], name))
        for name in SIG.CSV_IO:
            k.append((E + ".csv.io", name))
        for name in SIG.NETCDF_IO:
            k.append((E + ".netcdf.io", name))
        k += [("ulib", "Alpha"), ("ulib", "Beta"), ("ulib_extra", "Gamma"), ("ulib_extra", "GammaTwin"), ("ulib2", "Alpha"), ("ulib3", "Alpha"), ("upkg", "Eps"), ("upkg.sub", "Delta"), ("upkg.sub", "Add"), ("upkgx", "Zeta"), ("upkg2.deep", "Theta")]
        KNOWN = k
    return KNOWN


def reference(t, hist=()):
    """expected outcome of Program(libraries=t): depends on t and on the commands that exist (library contents + classes defined
    inside a library module by 'define-in' events), never on earlier Program constructions or imports"""
    found = {}
    dynamic = [(ev[1], ev[2]) for ev in hist if ev[0] == "define-in"]
    for lib, repair in FLAKY.items():
        if lib in t and repair not in hist:
            return ("raised",)  # the library cannot be imported (yet): the construction fails, whatever else is asked for
    if "ulate" in t:
        dynamic.append(("ulate", "Kappa"))
    if "upkgf" in t:
        dynamic += [("upkgf", "Iota"), ("upkgf.mod", "Lam")]
    for module, name in list(_known()) + dynamic:
        if any(module == lib or module.startswith(lib + ".") for lib in t):
            found.setdefault(name, set()).add(module)
    dup = sorted(n for n, mods in found.items() if len(mods) > 1)
    if dup:
        return ("error", tuple(dup))
    return ("ok", tuple(sorted((n, next(iter(m))) for n, m in found.items())))


_WD = [None]


def prepare(tier):
    import numpy  # noqa: F401  (pre-import heavy third-party modules once; they are not MPilot libraries)
    try:
        import netCDF4  # noqa: F401
    except Exception:
        pass
    import ply.lex  # noqa: F401
    import ply.yacc  # noqa: F401
    import six  # noqa: F401
    import mpilot.commands  # noqa: F401  (the registry itself; no library is imported in the parent)
    import mpilot.program  # noqa: F401

    d = snapshot.scratch_dir("c19_")
    for rel, src in USER_SRC.items():
        path = os.path.join(d, rel)
        os.makedirs(os.path.dirname(path), exist_ok=True)
        with open(path, "w") as f:
            f.write(src)
    # two model folders that each hold their own module of the same name (NOT on sys.path): what a program over one of them can use must not
    # depend on a program over the other having been constructed before
    for which in ("A", "B"):
        os.makedirs(os.path.join(d, "_wd", which), exist_ok=True)
        with open(os.path.join(d, "_wd", which, "wdlib.py"), "w") as f:
            f.write("from mpilot.commands import Command\n\nclass Score(Command):\n    def execute(self, **kw):\n        return 'wdlib of %s'\n" % which)
    _WD[0] = os.path.join(d, "_wd")
    sys.path.insert(0, d)
    loaded = [m for m in sys.modules if m.startswith("mpilot.libraries.") or m.split(".")[0] in ("ulib", "ulib_extra", "ulib2", "ulib3", "upkg", "upkgx", "upkg2")]
    if loaded:
        raise RuntimeError("libraries already imported in the parent process: %r" % loaded)


def _tuples(menu, k):
    out = []
    for n in range(1, k + 1):
        out += list(itertools.permutations(menu, n))
    return out


def _events(menu, k):
    evs = [("program", t) for t in _tuples(menu, k)]
    evs += [("import", lib) for lib in menu]
    evs += [("define", "Unrelated"), ("define", "Alpha"), ("define", "Sum"), ("model",)]
    return evs


def cases(tier):
    last = [("program", t) for t in _tuples(MENU, 2)]
    # depth 1
    for ev in last:
        yield ([], ev)
    # depth 2 (quick: probes over the prefix-related and package menus; thorough: all 121 probes)
    firsts = _events(MENU, 2)
    menu2 = [E + ".basic", E] + USER
    last2 = last if tier == "thorough" else [("program", t) for t in _tuples(menu2, 2)] + [("program", (b,)) for b in BUILTIN[1:4]]
    for f in firsts:
        for ev in last2:
            yield ([f], ev)
    # depth 3, targeted: a library is used (or imported), then a NEW command class is defined inside that library's module, then programs
    # are constructed again: the new command must be visible exactly as in a process where the first step never happened
    for L in ["ulib", "ulib_extra", "upkg", "upkg.sub", E + ".basic"]:
        others = ["ulib2", E + ".csv"]
        for first in [None, ("program", (L,)), ("program", (L, others[0])), ("program", (others[1], L)), ("import", L), ("program", (others[0],))]:
            for name in ("Dyn1",):
                for t in [(L,), (L, others[0]), (others[1], L), (others[0],)]:
                    h = ([first] if first else []) + [("define-in", L, name)]
                    yield (h, ("program", t))
                    yield (h + [("program", (L,))], ("program", t))
    # depth <=4, targeted: a construction FAILS because a library cannot be imported, the cause is repaired, programs are constructed again
    for lib, repair in FLAKY.items():
        yield ([], ("program", (lib,)))
        yield ([repair], ("program", (lib,)))
        for first in [[("program", (lib,))], [("program", (lib, "ulib"))], [("program", ("ulib", lib))], [("program", (lib,)), ("program", (lib,))],
                      [("program", ("ulib",)), ("program", (lib,))]]:
            for t in [(lib,), (lib, "ulib"), ("ulib", lib), ("ulib",)]:
                yield (first + [repair], ("program", t))
                yield (first + [repair, ("program", (lib,))], ("program", t))
                yield (first, ("program", t))
    # the class a user imports from a requested library can be ADDED to a program over that library, whatever was constructed or imported before
    for L, module, clsname in (("upkg", "upkg.sub", "Delta"), ("upkg", "upkg", "Eps"), ("ulib", "ulib", "Alpha"), ("upkg2", "upkg2.deep", "Theta"),
                               (E + ".csv", E + ".csv.io", "EEMSRead"), (E + ".basic", E + ".basic", "Copy")):
        for first in [[], [("program", (L,))], [("program", (L,)), ("program", (L,))], [("import", module)], [("import", module), ("program", (L,))],
                      [("program", (L,)), ("import", module)]]:
            yield (first, ("add", (L, module, clsname)))
    # programs with a WORKING DIRECTORY that holds a module of its own: the outcome of every construction equals its outcome in a fresh process
    wd_events = [("program-wd", ("A", "wdlib")), ("program-wd", ("B", "wdlib")), ("program-wd", ("A", "ulib")), ("program-wd", ("B", "ulib", "wdlib"))]
    for lastev in wd_events + [("program", ("wdlib",)), ("program", ("ulib",))]:
        for h in [[]] + [[e] for e in wd_events] + [[wd_events[0], wd_events[1]], [wd_events[1], wd_events[0]], [("program", ("ulib",)), wd_events[0]]]:
            if lastev[0] == "program-wd" or any(e[0] == "program-wd" for e in h):
                yield (h, lastev)
    # the derived same-named command (ulib3.Alpha derives from ulib.Alpha; importing ulib3 imports ulib): alone it resolves to the derived class,
    # together with ulib (either order) or ulib2 the construction fails - from the empty history and after either library was used
    d_probes = [("ulib3",), ("ulib", "ulib3"), ("ulib3", "ulib"), ("ulib3", "ulib2"), ("ulib2", "ulib3"), ("ulib3", "ulib_extra"), ("ulib",)]
    for t in d_probes:
        yield ([], ("program", t))
        for f in [("program", ("ulib",)), ("program", ("ulib3",)), ("import", "ulib3"), ("program", ("ulib3", "ulib_extra"))]:
            yield ([f], ("program", t))
    if tier == "thorough":
        small = [E + ".basic", E + ".csv", "ulib", "ulib_extra", "ulib2", "upkg"]
        evs = _events(small, 1) + [("program", t) for t in itertools.permutations(small, 2) if t[0].startswith("u") or t[1].startswith("u")]
        last3 = [("program", t) for t in _tuples(small, 2)]
        for a in evs:
            for b in evs:
                for ev in last3:
                    yield ([a, b], ev)
        for t in itertools.permutations(USER, 3):
            yield ([], ("program", t))
            yield ([("program", (t[2],))], ("program", t))


def _do(ev):
    """perform one event in the current (child) process; returns its observation"""
    from mpilot.exceptions import MPilotError

    kind = ev[0]
    if kind == "program":
        from mpilot.program import Program

        try:
            p = Program(libraries=tuple(ev[1]))
        except MPilotError as exc:
            msg = str(exc)
            names = tuple(sorted(x.strip() for x in msg.split(":")[-1].split(",")))
            return ("error", names)
        except Exception as exc:
            return ("raised", type(exc).__name__, str(exc)[:100])
        return ("ok", tuple(sorted((n, c.__module__) for n, c in p.command_library.items())))
    if kind == "program-wd":
        import inspect
        from mpilot.program import Program

        try:
            p = Program(libraries=tuple(ev[1][1:]), working_dir=os.path.join(_WD[0], ev[1][0]))
        except MPilotError as exc:
            return ("error", tuple(sorted(x.strip() for x in str(exc).split(":")[-1].split(","))))
        except Exception as exc:
            return ("raised", type(exc).__name__)
        return ("ok", tuple(sorted((n, c.__module__ + ("@" + os.path.basename(os.path.dirname(inspect.getfile(c))) if c.__module__ == "wdlib" else ""))
                                   for n, c in p.command_library.items())))
    if kind == "import":
        __import__(ev[1])
        return None
    if kind == "add":
        import importlib
        from mpilot.program import Program

        L, module, clsname = ev[1]
        p = Program(libraries=(L,))
        cls = getattr(importlib.import_module(module), clsname)
        args = {"InFileName": "/nonexistent.csv", "InFieldName": "A"} if clsname == "EEMSRead" else {"InFieldName": "x"} if clsname == "Copy" else {}
        try:
            p.add_command(cls, "r", args)
        except MPilotError as exc:
            return ("add-rejected", type(exc).__name__)
        return ("added", type(p.commands["r"]).__name__)
    if kind == "create-lib":
        import importlib

        with open(os.path.join(_PRIV[0], ev[1] + ".py"), "w") as f:
            f.write(ULATE_SRC)
        importlib.invalidate_caches()
        return None
    if kind == "fix":
        with open(os.path.join(_PRIV[0], ev[1], "READY"), "w") as f:
            f.write("")
        return None
    if kind == "define-in":
        from mpilot.commands import Command

        ns = {"__name__": ev[1], "Command": Command}
        exec("class %s(Command):\n    def execute(self, **kw):\n        return 'dynamic'\n" % ev[2], ns)
        _KEEP.append(ns)
        return None
    if kind == "define":
        from mpilot.commands import Command

        mod = types.ModuleType("zz_unrelated_module")
        sys.modules[mod.__name__] = mod
        ns = {"__name__": mod.__name__, "Command": Command}
        exec("class %s(Command):\n    def execute(self, **kw):\n        return 'unrelated'\n" % ev[1], ns)
        return None
    if kind == "model":
        from mpilot.program import Program

        src = "A = EEMSRead(InFileName = /nonexistent.csv, InFieldName = A)\nB = CvtToFuzzy(InFieldName = A)"
        p = Program.from_source(src)
        try:
            p.run()
        except MPilotError:
            pass
        return None
    raise ValueError(ev)


_KEEP = []
_PRIV = [None]


def _in_child(hist, last, priv=None):
    r, w = os.pipe()
    pid = os.fork()
    if pid == 0:
        try:
            os.close(r)
            try:
                if priv:
                    _PRIV[0] = priv
                    sys.path.insert(0, priv)
                for ev in hist:
                    _do(ev)
                out = _do(last)
            except BaseException as exc:  # noqa
                out = ("child-error", type(exc).__name__, str(exc)[:200])
            with os.fdopen(w, "wb") as f:
                pickle.dump(out, f)
        finally:
            os._exit(0)
    os.close(w)
    with os.fdopen(r, "rb") as f:
        data = f.read()
    os.waitpid(pid, 0)
    return pickle.loads(data) if data else ("child-died",)


_BASE = {}


def run(case):
    hist, last = case
    hist = [tuple(tuple(x) if isinstance(x, (list, tuple)) else x for x in _e) for _e in hist]
    last = (last[0], tuple(last[1]))
    if last[0] == "add":
        got = _in_child(hist, last)
        tag = {"history": [list(map(str, e)) for e in hist], "imported_class": "%s.%s" % (last[1][1], last[1][2]), "library": last[1][0]}
        viols = []
        if got[0] != "added":
            viols.append(V("C19:add-command:imported-class-rejected:%s" % ("after-history" if hist else "from-empty-history"),
                           "add_command(%s.%s) on Program((%r,)) after %r: %r" % (last[1][1], last[1][2], last[1][0], hist, got), **tag))
        return {"evals": len(hist) + 1, "nontrivial": 1, "judged": 1, "states": 1, "transitions": len(hist) + 1, "viols": viols,
                "outcomes": {"add:%s" % got[0]: 1}, "sample": dict(tag, observed=got[0])}
    if last[0] == "program-wd" or any(e[0] == "program-wd" for e in hist):
        got = _in_child(hist, last)
        alone = _in_child([], last)
        tag = {"history": [list(map(str, e)) for e in hist], "probe": list(map(str, last))}
        viols = []
        if got != alone:
            viols.append(V("C19:lookup:depends-on-history:working-directory", "%r after %r gives %r, in a fresh process %r" % (last, hist, got, alone), **tag))
        return {"evals": len(hist) + 2, "nontrivial": 1, "judged": 1, "states": 1, "transitions": len(hist) + 2, "viols": viols,
                "outcomes": {"wd:%s:%s" % (alone[0], "same" if got == alone else "differs"): 1}, "sample": dict(tag, observed=got[0])}
    priv = None
    if any(lib in ev[1] for ev in hist + [last] if ev[0] == "program" for lib in FLAKY) or any(ev in hist for ev in FLAKY.values()):
        priv = snapshot.scratch_dir("c19p_")  # private to this history: the events write into it
        for rel, src in FLAKY_SRC.items():
            os.makedirs(os.path.dirname(os.path.join(priv, rel)), exist_ok=True)
            with open(os.path.join(priv, rel), "w") as f:
                f.write(src)
    try:
        got = _in_child(hist, last, priv)
    finally:
        if priv:
            import shutil

            shutil.rmtree(priv, ignore_errors=True)
    viols = []
    ref = reference(last[1], hist)
    tag = {"history": [list(map(str, e)) for e in hist], "probe": list(last[1])}
    kind = "from-empty-history" if not hist else "after-history"
    if got[0] == "raised" and ref[0] == "raised":
        oc = "raised-as-expected"
        got = ("raised", ())
    elif ref[0] == "raised":
        viols.append(V("C19:lookup:unimportable-library-accepted", "Program(%r) after %r was constructed although a library cannot be imported" % (last[1], hist), **tag))
        oc = "differs"
    elif got[0] in ("child-error", "child-died", "raised"):
        viols.append(V("C19:lookup:raised:%s" % (got[1] if len(got) > 1 else "died"), "Program(%r) after %r failed with %r" % (last[1], hist, got), **tag))
        oc = "raised"
    elif got != ref:
        if got[0] == "ok" and ref[0] == "ok":
            extra = sorted(set(got[1]) - set(ref[1]))
            missing = sorted(set(ref[1]) - set(got[1]))
            what = "extra commands %r, missing %r" % (extra[:4], missing[:4])
            leak = "prefix-leak" if any(not any(m == lib or m.startswith(lib + ".") for lib in last[1]) for _, m in extra) else ("missing-commands" if missing else "wrong-module")
            key = "C19:lookup:%s:%s" % (leak, kind)
        elif got[0] == "error" and ref[0] == "ok":
            what = "construction failed as duplicated %r although the requested libraries define no name twice" % (got[1],)
            key = "C19:lookup:false-duplicate:%s" % kind
        elif got[0] == "ok" and ref[0] == "error":
            what = "constructed although the requested libraries define %r twice" % (ref[1],)
            key = "C19:lookup:duplicate-not-reported:%s" % kind
        else:
            what = "duplicates reported %r, reference %r" % (got[1], ref[1])
            key = "C19:lookup:wrong-duplicates:%s" % kind
        viols.append(V(key, "Program(%r) after %r: %s" % (last[1], hist, what), **tag))
        oc = "differs"
    else:
        oc = got[0]
    return {"evals": len(hist) + 1, "nontrivial": 1, "judged": 1, "states": 1, "transitions": len(hist) + 1, "viols": viols,
            "outcomes": {"%s:%s:n=%d" % (kind, oc, len(got[1]) if got[0] == "ok" else 0): 1},
            "sample": {"history": tag["history"], "probe": tag["probe"], "observed": got[0], "commands": len(got[1]) if got[0] == "ok" else list(got[1])[:5]}}
