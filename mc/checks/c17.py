"""C17 — CSV reading and writing are faithful.

Read: every table of 0..3 rows x 1..2 columns (thorough: 3 columns) over an 11-value double alphabet (zeros, subnormal, extremes,
1/3, 17-digit values, -9999), header names needing CSV quoting, MissingVal {absent, present in the column, present only in the
other column, absent from the data}, DataType {absent, Float, Integer}, a blank line at every position, CRLF; faults: missing
header, non-numeric cell at every row.  Write: every list of 1..3 results (incl. integer arrays, names needing quoting), then
re-read.  Oracle: values in row order bit for bit (float.hex), requested element type, missing exactly at the cells equal to
MissingVal in that column, InvalidDataFile naming the true file line, header = result names in order, one row per cell.
"""
import csv
import io
import itertools
import os
import re

import numpy

from ..core import V
from .. import snapshot

ID = "C17"
LEVEL = "exploration"
CHUNK = 1
LIBS = ("mpilot.libraries.eems.csv", "mc.vlib.const")
RULE = ("cases = (number of rows, column layout, read options); each enumerates every table over the double alphabet, writes the file "
        "with Python's csv module, reads the column through the real EEMSRead and compares bit for bit; write cases enumerate result "
        "lists, write through the real EEMSWrite and re-read; non-trivial = distinct (file content, options)")
ASSUMPTIONS = ["Python's csv module and float repr are trusted to produce the reference file text", "written missing cells are UNSPECIFIED (the statement only covers non-missing finite numbers)",
               "Integer reads only over integer-valued cells below 2^53"]
DOUBLES = [0.0, -0.0, 1.0, 0.1, 1 / 3.0, 5e-324, 2.2250738585072014e-308, 1.7976931348623157e308, 1e22, 123456789.12345679, -9999.0]
INTS = [0.0, 1.0, -3.0, 2.0 ** 52, -9999.0, 7.0]
HEADERS = ["A", "a b", "a,b", 'a"b', "café", " A", "A ", "\tA"]  # (a column name is its exact text: blanks at either end belong to it, ` A` and `A` are two columns)


def BOUND(tier):
    return "tables <=3 rows x <=2 columns over 11 doubles (6 integers for Integer reads); 8 header names; 4 MissingVal situations; 3 DataTypes; blank lines at every position; CRLF; writes of 1..3 results"


def cases(tier):
    for nrows in (0, 1, 2, 3):
        for dt in (None, "Float", "Integer"):
            for first in range(len(DOUBLES) if nrows == 3 and dt != "Integer" else 1):
                yield ("read", nrows, dt, first if (nrows == 3 and dt != "Integer") else -1)
    for h in range(len(HEADERS)):
        yield ("headers", h)
    yield ("faults",)
    for n in (1, 2, 3):
        yield ("write", n)
    yield ("forms",)
    yield ("labels",)
    for ncols in (1, 2, 3):
        yield ("long", ncols)


def _text(header, rows, crlf=False, blank_at=None):
    buf = io.StringIO()
    w = csv.writer(buf, lineterminator="\n")
    w.writerow(header)
    for r in rows:
        w.writerow([repr(float(x)) if not isinstance(x, str) else x for x in r])
    lines = buf.getvalue().split("\n")[:-1]
    if blank_at is not None:
        lines.insert(blank_at, "")
    text = ("\r\n" if crlf else "\n").join(lines) + ("\r\n" if crlf else "\n")
    return text


_P = {}


def _program(work):
    from mpilot.program import Program

    if _P.get("wd") != work:
        _P["p"] = Program(libraries=LIBS, working_dir=work)
        _P["wd"] = work
    p = _P["p"]
    p.commands = {}
    return p


def _read(work, fname, field, missing=None, dtype=None):
    from mpilot.exceptions import MPilotError

    p = _program(work)
    args = {"InFileName": fname, "InFieldName": field}
    if missing is not None:
        args["MissingVal"] = missing
    if dtype is not None:
        args["DataType"] = dtype
    p.add_command(p.find_command_class("EEMSRead"), "r", args)
    try:
        return ("ok", p.commands["r"].result)
    except MPilotError as exc:
        return ("err", exc)


def _hex(x):
    return float(x).hex()


def _check_read(res, col, missing, dtype, viols, tag, counters):
    counters["judged"] += 1
    if res[0] == "err":
        viols.append(V("C17:read:raised:%s" % type(res[1]).__name__, "reading a well-formed column raised %s: %s" % (type(res[1]).__name__, str(res[1]).split("\n")[0][:120]), **tag))
        return "raised"
    a = res[1]
    if not isinstance(a, numpy.ma.MaskedArray):
        viols.append(V("C17:read:not-masked-array", "EEMSRead returned %r" % type(a).__name__, **tag))
        return "bad"
    if a.shape != (len(col),):
        viols.append(V("C17:read:wrong-length", "read %d values from %d rows" % (a.shape[0] if a.ndim else -1, len(col)), **tag))
        return "bad"
    want_kind = "i" if dtype == "Integer" else "f"
    if a.dtype.kind != want_kind:
        viols.append(V("C17:read:wrong-dtype", "element type %s for DataType %r" % (a.dtype, dtype), **tag))
        return "bad"
    mask = numpy.ma.getmaskarray(a)
    for i, x in enumerate(col):
        want_missing = missing is not None and float(x) == float(missing)
        if bool(mask[i]) != want_missing:
            viols.append(V("C17:read:%s" % ("missing-not-marked" if want_missing else "marked-missing-wrongly"),
                           "row %d value %r MissingVal %r: masked=%r" % (i, x, missing, bool(mask[i])), **tag))
            return "bad"
        if not want_missing:
            got = a.data[i]
            if want_kind == "f":
                if _hex(got) != _hex(x):
                    viols.append(V("C17:read:wrong-value", "row %d: read %r (%s), file has %r (%s)" % (i, float(got), _hex(got), x, _hex(x)), **tag))
                    return "bad"
            elif int(got) != int(x):
                viols.append(V("C17:read:wrong-value", "row %d: read %r, file has %r" % (i, int(got), x), **tag))
                return "bad"
    return "ok"


def _run_read(case):
    _, nrows, dt, first = case
    work = snapshot.scratch_dir("c17_")
    viols, outcomes = [], {}
    counters = {"judged": 0}
    evals = 0
    sample = None
    alpha = INTS if dt == "Integer" else DOUBLES
    try:
        for colA in itertools.product(alpha, repeat=nrows):
            if first >= 0 and colA[0] != alpha[first] or (first >= 0 and _hex(colA[0]) != _hex(alpha[first])):
                continue
            # second column: a rotation of the alphabet, so that MissingVal can be "present only in the other column"
            colB = [alpha[(alpha.index(x) + 3) % len(alpha)] if x in alpha else x for x in colA]
            present = sorted(set(map(float, colA)))
            only_other = [x for x in map(float, colB) if x not in set(map(float, colA))]
            missing_opts = [None, -12345.0]
            if present:
                missing_opts.append(present[0])
                missing_opts.append(present[-1])
            if only_other:
                missing_opts.append(only_other[0])
            layouts = [(["A", "B"], 0), (["B", "A"], 1), (["A"], 0)]
            for header, idx in layouts:
                rows = [[a] if len(header) == 1 else ([a, b] if idx == 0 else [b, a]) for a, b in zip(colA, colB)]
                variants = [(False, None)]
                if nrows <= 2:
                    variants += [(True, None)] + [(False, k) for k in range(1, nrows + 2)]
                for crlf, blank in variants:
                    text = _text(header, rows, crlf, blank)
                    with open(os.path.join(work, "t.csv"), "w", newline="") as f:
                        f.write(text)
                    for mv in missing_opts:
                        if dt == "Integer" and mv is not None and mv != int(mv):
                            continue
                        res = _read(work, "t.csv", "A", mv if mv is None else (int(mv) if mv == int(mv) and abs(mv) < 2 ** 53 else mv), dt)
                        evals += 1
                        tag = {"file": text, "field": "A", "MissingVal": mv, "DataType": dt}
                        sample = tag
                        oc = _check_read(res, list(colA), mv, dt, viols, tag, counters)
                        k = "read:%s:%s" % (dt, oc)
                        outcomes[k] = outcomes.get(k, 0) + 1
            if len(viols) > 40:
                del viols[40:]
    finally:
        import shutil
        shutil.rmtree(work, ignore_errors=True)
    return {"evals": max(evals, 1), "nontrivial": evals, "judged": counters["judged"], "viols": viols, "outcomes": outcomes, "sample": sample}


def _run_headers(case):
    h = HEADERS[case[1]]
    work = snapshot.scratch_dir("c17_")
    viols, outcomes = [], {}
    counters = {"judged": 0}
    evals = 0
    sample = None
    try:
        for other in HEADERS:
            if other == h:
                continue
            for order in (0, 1):
                header = [h, other] if order == 0 else [other, h]
                col = [0.1, -9999.0, 1e22]
                oth = [7.0, 0.1, -9999.0]
                rows = [[a, b] if order == 0 else [b, a] for a, b in zip(col, oth)]
                text = _text(header, rows)
                with open(os.path.join(work, "h.csv"), "w", newline="", encoding="utf-8") as f:
                    f.write(text)
                for mv in (None, -9999):
                    res = _read(work, "h.csv", h, mv, None)
                    evals += 1
                    tag = {"file": text, "field": h, "MissingVal": mv}
                    sample = tag
                    oc = _check_read(res, col, mv, None, viols, tag, counters)
                    outcomes["headers:" + oc] = outcomes.get("headers:" + oc, 0) + 1
    finally:
        import shutil
        shutil.rmtree(work, ignore_errors=True)
    return {"evals": evals, "nontrivial": evals, "judged": counters["judged"], "viols": viols, "outcomes": outcomes, "sample": sample}


# decimal numerals as other programs write them (no digit before / after the point, explicit plus sign, upper-case exponent, leading zeros)
FORMS = [".5", "-.25", "5.", "+.5e-3", "1.E3", "1e3", "1E-2", "+7", "007", "0.50", "-0.0", "1e+2", "12.", "-.5E+1", "+0", "3", '"2.5"', '"-4"']


def _run_forms(case):
    work = snapshot.scratch_dir("c17_")
    viols, outcomes = [], {}
    counters = {"judged": 0}
    evals = 0
    sample = None
    try:
        for form in FORMS:
            value = float(form.strip('"'))  # (a quoted cell is the cell without its quotes: CSV quoting)
            for layout, idx in ((["A"], 0), (["A", "B"], 0), (["B", "A"], 1)):
                for pos in (0, 1, 2):
                    col = [1.5, 2.5, 4.0]
                    col[pos] = value
                    rows = []
                    for r, x in enumerate(col):
                        cell = form if r == pos else repr(x)
                        rows.append([cell] if len(layout) == 1 else ([cell, "7.0"] if idx == 0 else ["7.0", cell]))
                    text = ",".join(layout) + "\n" + "".join(",".join(r) + "\n" for r in rows)
                    with open(os.path.join(work, "n.csv"), "w", newline="") as f:
                        f.write(text)
                    for dt in (None, "Float") + (("Integer",) if value == int(value) else ()):
                        if dt == "Integer":
                            col_i = [1, 2, 4]
                            col_i[pos] = value
                            rows_i = [[form if r == pos else str(int(x))] + ([] if len(layout) == 1 else ["7"]) for r, x in enumerate(col_i)]
                            if idx == 1:
                                rows_i = [list(reversed(r)) for r in rows_i]
                            with open(os.path.join(work, "n.csv"), "w", newline="") as f:
                                f.write(",".join(layout) + "\n" + "".join(",".join(r) + "\n" for r in rows_i))
                        res = _read(work, "n.csv", "A", -9999, dt)
                        evals += 1
                        tag = {"file": text, "numeral": form, "DataType": dt}
                        sample = tag
                        oc = _check_read(res, col_i if dt == "Integer" else col, -9999, dt, viols, tag, counters)
                        if oc != "ok" and viols:
                            viols[-1]["key"] += ":numeral-form"
                        outcomes["forms:" + oc] = outcomes.get("forms:" + oc, 0) + 1
    finally:
        import shutil
        shutil.rmtree(work, ignore_errors=True)
    return {"evals": evals, "nontrivial": evals, "judged": counters["judged"], "viols": viols[:20], "outcomes": outcomes, "sample": sample}


LABELS = ["#12", "# a note", "plot-1", "7", "", "x y", "#13, north", "--", "NA", "//c", ";x", "%1", "!"]


def _run_labels(case):
    """a TEXT column next to the numeric one (plot tags, codes, notes - also cells that look like comments or separators in other formats):
    reading the numeric column is unaffected by the other column, row for row; every label at every row, label column first / last,
    and as the header of that column"""
    import csv as _csv

    work = snapshot.scratch_dir("c17_")
    viols, outcomes = [], {}
    counters = {"judged": 0}
    evals = 0
    sample = None
    col = [1.5, -9999.0, 0.25, 4.0]
    try:
        for lab in LABELS:
            for pos in range(len(col) + 1):  # pos == len(col): the label is the HEADER of the text column
                for first in (True, False):
                    labels = ["t%d" % r for r in range(len(col))]
                    head = "tag"
                    if pos < len(col):
                        labels[pos] = lab
                    else:
                        head = lab if lab else "tag"
                    buf = io.StringIO()
                    w = _csv.writer(buf, lineterminator="\n")
                    w.writerow([head, "B"] if first else ["B", head])
                    for lb, x in zip(labels, col):
                        w.writerow([lb, repr(x)] if first else [repr(x), lb])
                    text = buf.getvalue()
                    with open(os.path.join(work, "lab.csv"), "w", newline="") as f:
                        f.write(text)
                    for mv in (None, -9999):
                        res = _read(work, "lab.csv", "B", mv, None)
                        evals += 1
                        tag = {"file": text, "field": "B", "MissingVal": mv}
                        sample = tag
                        oc = _check_read(res, col, mv, None, viols, tag, counters)
                        if oc != "ok" and viols:
                            viols[-1]["key"] += ":text-column"
                        outcomes["labels:" + oc] = outcomes.get("labels:" + oc, 0) + 1
        # RAGGED tables: an optional trailing column left off some rows, or a trailing comma adding an empty cell to some rows, while the
        # requested column is complete ("unaffected by other columns"): every subset of the rows, both variants, B first or second
        for sub in range(1, 2 ** len(col)):
            for variant in ("short", "extra"):
                for bpos in (0, 1):
                    lines = ["B,C,D" if bpos == 0 else "C,B,D"]
                    for r, x in enumerate(col):
                        cells = [repr(x), "7"] if bpos == 0 else ["7", repr(x)]
                        if sub >> r & 1:
                            cells = cells + ([] if variant == "short" else ["3", ""])
                        else:
                            cells = cells + ["3"]
                        lines.append(",".join(cells))
                    text = "\n".join(lines) + "\n"
                    with open(os.path.join(work, "rag.csv"), "w", newline="") as f:
                        f.write(text)
                    for mv in (None, -9999):
                        res = _read(work, "rag.csv", "B", mv, None)
                        evals += 1
                        tag = {"file": text, "field": "B", "MissingVal": mv}
                        oc = _check_read(res, col, mv, None, viols, tag, counters)
                        if oc != "ok" and viols:
                            viols[-1]["key"] += ":ragged-rows"
                        outcomes["ragged:" + oc] = outcomes.get("ragged:" + oc, 0) + 1
    finally:
        import shutil
        shutil.rmtree(work, ignore_errors=True)
    return {"evals": evals, "nontrivial": evals, "judged": counters["judged"], "viols": viols[:20], "outcomes": outcomes, "sample": sample}


def _run_long(case):
    """long tables (named sizes 24, 30, 100, 1000 rows) of decimals: one, two and three columns, with and without missing markers"""
    _, ncols = case
    work = snapshot.scratch_dir("c17_")
    viols, outcomes = [], {}
    counters = {"judged": 0}
    evals = 0
    sample = None
    try:
        for nrows in (24, 30, 100, 1000):
            for marker_every in (0, 7):
                cols = []
                for c in range(ncols):
                    col = [float(((r * 37 + c * 11) % 89)) + [0.515, 0.25, 0.125][c % 3] for r in range(nrows)]
                    if marker_every:
                        col = [(-9999.0 if (r + c) % marker_every == 3 else x) for r, x in enumerate(col)]
                    cols.append(col)
                names = ["A", "B", "C"][:ncols]
                text = ",".join(names) + "\n" + "".join(",".join(repr(cols[c][r]) for c in range(ncols)) + "\n" for r in range(nrows))
                with open(os.path.join(work, "l.csv"), "w", newline="") as f:
                    f.write(text)
                for c, name in enumerate(names):
                    for mv in (None, -9999):
                        res = _read(work, "l.csv", name, mv, None)
                        evals += 1
                        tag = {"rows": nrows, "columns": ncols, "field": name, "MissingVal": mv, "first_lines": text[:80]}
                        sample = tag
                        oc = _check_read(res, cols[c], mv, None, viols, tag, counters)
                        if oc != "ok" and viols:
                            viols[-1]["key"] += ":long-table"
                        outcomes["long:" + oc] = outcomes.get("long:" + oc, 0) + 1
    finally:
        import shutil
        shutil.rmtree(work, ignore_errors=True)
    return {"evals": evals, "nontrivial": evals, "judged": counters["judged"], "viols": viols[:20], "outcomes": outcomes, "sample": sample}


def _run_faults(case):
    work = snapshot.scratch_dir("c17_")
    viols, outcomes = [], {}
    evals = judged = 0
    sample = None
    try:
        # missing header
        for header in (["B"], ["B", "C"], ["a"], [" A"]):
            text = _text(header, [[1.0] * len(header)])
            open(os.path.join(work, "f.csv"), "w", newline="").write(text)
            res = _read(work, "f.csv", "A")
            evals += 1
            judged += 1
            tag = {"file": text, "field": "A"}
            if res[0] != "err" or type(res[1]).__name__ != "InvalidDataFile":
                viols.append(V("C17:fault:missing-header-not-reported", "missing header A gave %r" % (res[1] if res[0] == "err" else "a result",), **tag))
            outcomes["missing-header"] = outcomes.get("missing-header", 0) + 1
        # empty file
        open(os.path.join(work, "f.csv"), "w").write("")
        res = _read(work, "f.csv", "A")
        evals += 1
        judged += 1
        if res[0] != "err" or type(res[1]).__name__ not in ("EmptyDataFile", "InvalidDataFile"):
            viols.append(V("C17:fault:empty-file-not-reported", "empty file gave %r" % (res[1] if res[0] == "err" else "a result",), file=""))
        # non-numeric cell at every row, with blank lines and CRLF shifting the true line
        for nrows in (1, 2, 3):
            for bad_row in range(nrows):
                for badtext in ("x", "", "1,5", "NULL", "1.0.0"):
                    for blank in [None] + list(range(1, nrows + 1)):
                        for crlf in (False, True):
                            for header, idx in ((["A", "B"], 0), (["B", "A"], 1)):
                                for other in ((5.0, "") if badtext == "" else (5.0,)):
                                    # (other == "": the whole row consists of separators only - still a data row with an empty cell, not a blank line)
                                    rows = []
                                    for r in range(nrows):
                                        a = badtext if r == bad_row else float(r + 1)
                                        o_ = other if r == bad_row else 5.0
                                        rows.append([a, o_] if idx == 0 else [o_, a])
                                    text = _text(header, rows, crlf, blank)
                                    open(os.path.join(work, "f.csv"), "w", newline="").write(text)
                                    true_line = 2 + bad_row + (1 if blank is not None and blank <= bad_row + 1 else 0)
                                    mv_ = -9999 if (bad_row + nrows + (0 if blank is None else blank)) % 2 else None  # (half of the files are read with MissingVal declared)
                                    res = _read(work, "f.csv", "A", mv_)
                                    evals += 1
                                    judged += 1
                                    tag = {"file": text, "field": "A", "bad_cell": badtext, "true_line": true_line, "MissingVal": mv_}
                                    sample = tag
                                    if res[0] != "err":
                                        viols.append(V("C17:fault:bad-cell-accepted", "non-numeric cell %r on line %d was read as %r" % (badtext, true_line, res[1]), **tag))
                                        continue
                                    name = type(res[1]).__name__
                                    if name != "InvalidDataFile":
                                        viols.append(V("C17:fault:bad-cell-wrong-error:" + name, "non-numeric cell %r gave %s" % (badtext, name), **tag))
                                        continue
                                    m = re.search(r"line (\d+)", str(res[1]))
                                    if not m or int(m.group(1)) != true_line:
                                        viols.append(V("C17:fault:wrong-file-line", "message says %r, the bad cell is on file line %d" % (m.group(0) if m else None, true_line), **tag))
                                    outcomes["bad-cell:line-%s" % ("ok" if m and int(m.group(1)) == true_line else "bad")] = outcomes.get("bad-cell:line-ok", 0) + 1
    finally:
        import shutil
        shutil.rmtree(work, ignore_errors=True)
    return {"evals": evals, "nontrivial": evals, "judged": judged, "viols": viols[:40], "outcomes": outcomes, "sample": sample}


def _run_write(case):
    from mpilot.exceptions import MPilotError
    from ..vlib import const as C

    n = case[1]
    work = snapshot.scratch_dir("c17_")
    viols, outcomes = [], {}
    evals = judged = 0
    sample = None
    cols = {
        "d1": lambda: numpy.ma.MaskedArray(DOUBLES[:6]), "d2": lambda: numpy.ma.MaskedArray(DOUBLES[5:11]),
        "i1": lambda: numpy.ma.MaskedArray(numpy.array([0, 1, -3, 2 ** 52, -9999, 7], dtype=numpy.int64)),
        "m1": lambda: numpy.ma.MaskedArray([0.1, 1 / 3.0, 1e22, -0.0, 5e-324, 1.0], mask=[False, True, False, False, False, True]),
        "s1": lambda: numpy.ma.MaskedArray([1 / 3.0]), "e0": lambda: numpy.ma.MaskedArray(numpy.array([], dtype=float)),
    }
    names = {"d1": "A", "d2": "a b", "i1": "a,b", "m1": 'a"b', "s1": "S", "e0": "E"}
    try:
        keys = [k for k in cols]
        for combo in itertools.product(keys, repeat=n):  # (a result may be listed more than once: one column per LISTED name)
            lens = {len(cols[k]()) for k in combo}
            if len(lens) != 1:
                continue
            p = _program(work)
            C.TABLE.clear()
            C.TABLE.update(cols)
            for k in dict.fromkeys(combo):
                p.add_command(p.find_command_class("ConstNF"), names[k], {"Key": k})
            p.add_command(p.find_command_class("EEMSWrite"), "W", {"OutFileName": "out.csv", "OutFieldNames": [names[k] for k in combo]})
            evals += 1
            judged += 1
            tag = {"written": [names[k] for k in combo], "arrays": [repr(cols[k]().tolist()) for k in combo]}
            sample = tag
            try:
                p.commands["W"].result
            except MPilotError as exc:
                viols.append(V("C17:write:raised:%s" % type(exc).__name__, "writing %r raised %s" % (tag["written"], str(exc).split("\n")[0][:150]), **tag))
                continue
            with open(os.path.join(work, "out.csv"), newline="") as f:
                content = f.read()
            rows = list(csv.reader(io.StringIO(content)))
            tag["file"] = content
            if not rows or rows[0] != [names[k] for k in combo]:
                viols.append(V("C17:write:wrong-header", "header %r, result names %r" % (rows[0] if rows else None, [names[k] for k in combo]), **tag))
                continue
            ncell = lens.pop()
            if len(rows) - 1 != ncell:
                viols.append(V("C17:write:wrong-row-count", "%d rows for %d cells" % (len(rows) - 1, ncell), **tag))
                continue
            anymask = any(numpy.ma.is_masked(cols[k]()) for k in combo)
            for k in combo:
                src = cols[k]()
                if anymask:
                    # rows with a missing cell are written in an unspecified form: compare the parsed text of non-missing cells only
                    j = list(combo).index(k)
                    for i in range(ncell):
                        if not numpy.ma.getmaskarray(src)[i]:
                            try:
                                if _hex(float(rows[i + 1][j])) != _hex(float(src.data[i])):
                                    viols.append(V("C17:write:wrong-value", "cell %d of %s written as %r, value %r" % (i, names[k], rows[i + 1][j], float(src.data[i])), **tag))
                                    break
                            except ValueError:
                                viols.append(V("C17:write:unparseable-value", "cell %d of %s written as %r" % (i, names[k], rows[i + 1][j]), **tag))
                                break
                    continue
                res = _read(work, "out.csv", names[k], None, "Integer" if src.dtype.kind == "i" else None)
                evals += 1
                if res[0] == "err":
                    viols.append(V("C17:roundtrip:reread-raised:%s" % type(res[1]).__name__, "re-reading %r raised %s" % (names[k], str(res[1]).split("\n")[0][:150]), **tag))
                    continue
                got = res[1]
                if got.shape != src.shape:
                    viols.append(V("C17:roundtrip:shape", "re-read %r cells, wrote %r" % (got.shape, src.shape), **tag))
                    continue
                for i in range(ncell):
                    if _hex(float(got.data[i])) != _hex(float(src.data[i])):
                        viols.append(V("C17:roundtrip:not-bit-identical", "%s[%d]: wrote %r (%s), re-read %r (%s)" % (
                            names[k], i, float(src.data[i]), _hex(src.data[i]), float(got.data[i]), _hex(got.data[i])), **tag))
                        break
            outcomes["write:n=%d" % n] = outcomes.get("write:n=%d" % n, 0) + 1
    finally:
        import shutil
        shutil.rmtree(work, ignore_errors=True)
    return {"evals": evals, "nontrivial": evals, "judged": judged, "viols": viols[:40], "outcomes": outcomes, "sample": sample}


def run(case):
    case = tuple(case)
    return {"read": _run_read, "headers": _run_headers, "faults": _run_faults, "write": _run_write, "forms": _run_forms, "long": _run_long, "labels": _run_labels}[case[0]](case)
