"""C09 — computed results are immutable: commands never modify their inputs.

Explicit-state search.  Initial state: a Program with finished producers (float with a missing cell, float without, int, fuzzy
with/without a missing cell, 2-D fuzzy, out-of-range-free).  Events: add one consumer command (every built-in data command incl.
PrintVars, CSV EEMSWrite and (second family, 2-D producers) NetCDF EEMSWrite x preset x EVERY choice of inputs among ALL results present so far, single-input and repeated-input
forms of n-ary operators included) and evaluate it; re-read / re-run events.  Invariant in every state: the snapshot (shape,
element type, mask, bytes of non-missing values) and object identity of every previously produced result is unchanged.
Depth 2 enumerates all event pairs; at depth 3 (thorough) the third event must consume a result created by an earlier event
(events over producers only repeat depth-1 behaviour: execute() is deterministic and its inputs are unchanged objects).
"""
import io
import itertools
import os
import sys
from fractions import Fraction as F

import numpy

from ..core import V
from .. import numdrv as D
from .. import snapshot
from ..ref import sig as SIG

ID = "C09"
LEVEL = "model_checking"
CHUNK = 1
LIBS = ("mpilot.libraries.eems.basic", "mpilot.libraries.eems.csv", "mpilot.libraries.eems.fuzzy", "mc.vlib.const")
NC_LIBS = ("mpilot.libraries.eems.basic", "mpilot.libraries.eems.netcdf", "mpilot.libraries.eems.fuzzy", "mc.vlib.const")
MODE = {"libs": "csv"}  # "csv" | "netcdf": which library set (and writer) the current case uses
RULE = ("states = event histories (consumer additions) replayed on a fresh Program; transitions = one consumer evaluated through "
        "Command.result; invariant = snapshots of all earlier results unchanged; non-trivial = distinct histories whose last event "
        "produced a result or an MPilot error")
ASSUMPTIONS = ["hidden payload beneath missing cells is not protected by the statement and not part of the snapshot",
               "depth-3 partial-order reduction: third event consumes at least one non-producer result"]

PRODUCERS = [  # name, fuzzy, key
    ("pf", False, "f_miss"), ("pg", False, "f_full"), ("pi", False, "i_full"), ("pz", True, "z_miss"), ("py", True, "z_full"),
    ("p2", True, "z_2d"), ("q2", False, "f_2d"),
]


_PROG = {}


# third family: results holding NaN and +-inf as ordinary (non-missing) cells (the CSV reader delivers them for cells "nan" / "inf")
NF_PRODUCERS = [("pn", False, "f_nan"), ("pm", False, "f_nan_miss"), ("pg", False, "f_full"), ("zn", True, "z_nan_miss")]
NC_PRODUCERS = [("p2", True, "z_2d"), ("q2", False, "f_2d"), ("r2", False, "f_2d_miss"), ("i2", False, "i_2d"), ("y2", True, "z_2d_full"),
                ("u2", False, "u_2d"), ("t3", False, "f_3d")]  # unsigned elements: what the NetCDF reader delivers for DataType = "Positive Integer"


def _table():
    return {
        "f_miss": lambda: numpy.ma.MaskedArray([-1.0, 0.5, 2.0, 5.0], mask=[False, True, False, False]),
        "f_full": lambda: numpy.ma.MaskedArray([1.5, -2.0, 0.0, 0.25]),
        "f_nan": lambda: numpy.ma.MaskedArray([float("nan"), 1.0, float("inf"), 0.5]),
        "z_nan_miss": lambda: numpy.ma.MaskedArray([0.5, float("nan"), -1.0, 0.25], mask=[False, False, False, True]),  # a fuzzy layer of a plug-in
        "f_nan_miss": lambda: numpy.ma.MaskedArray([2.0, float("-inf"), float("nan"), 0.0], mask=[False, False, False, True]),
        "i_full": lambda: numpy.ma.MaskedArray(numpy.array([2, -1, 0, 5], dtype=numpy.int64)),
        "z_miss": lambda: numpy.ma.MaskedArray([-1.0, 0.25, 1.0, -0.5], mask=[False, False, True, False]),
        "z_full": lambda: numpy.ma.MaskedArray([0.5, -1.0, 1.0, 0.0], mask=[False, False, False, False]),
        "z_2d": lambda: numpy.ma.MaskedArray([[-1.0, 0.25], [1.0, -0.5]], mask=[[False, False], [False, True]]),
        "f_2d": lambda: numpy.ma.MaskedArray([[3.0, -1.0], [0.5, 2.0]]),
        "f_2d_miss": lambda: numpy.ma.MaskedArray([[1.5, 0.0], [-2.0, 4.0]], mask=[[True, False], [False, False]]),
        "i_2d": lambda: numpy.ma.MaskedArray(numpy.array([[2, -1], [0, 5]], dtype=numpy.int64)),
        "f_3d": lambda: numpy.ma.MaskedArray([[[1.0, 2.5], [0.0, -1.0]]], mask=[[[False, False], [False, True]]]),  # shape (1, 2, 2)
        "u_2d": lambda: numpy.ma.MaskedArray(numpy.array([[3, 5], [0, 1]], dtype=numpy.uint64), mask=[[False, False], [True, False]]),
        "z_2d_full": lambda: numpy.ma.MaskedArray([[0.5, -1.0], [1.0, 0.0]], mask=[[False, False], [False, False]]),
    }


def BOUND(tier):
    return "all event pairs (depth 2) from the 7-producer initial state" + ("" if tier == "quick" else "; depth 3 with the third event consuming a derived result")


def _snap(a):
    if not isinstance(a, numpy.ndarray):
        return ("obj", repr(a))
    m = numpy.ma.getmaskarray(a)
    d = numpy.where(m, 0, numpy.asarray(a.data if isinstance(a, numpy.ma.MaskedArray) else a))
    return (a.shape, a.dtype.str, m.tobytes(), d.tobytes(), isinstance(a, numpy.ma.MaskedArray))


def _new_program(workdir):
    from mpilot.program import Program
    from ..vlib import const as C

    C.TABLE.clear()
    C.TABLE.update(_table())
    # the Program object only holds the command table and the library lookup: one lookup per worker, fresh commands per replay
    if _PROG.get("wd") != workdir:
        _PROG["p"] = Program(libraries=NC_LIBS if MODE["libs"] == "netcdf" else LIBS, working_dir=workdir)
        _PROG["wd"] = workdir
        if MODE["libs"] == "netcdf":
            from netCDF4 import Dataset

            with Dataset(os.path.join(workdir, "tpl.nc"), "w") as ds:
                ds.createDimension("y", 2)
                ds.createDimension("x", 2)
                ds.createVariable("y", "f8", ("y",))[:] = [0.0, 1.0]
                ds.createVariable("x", "f8", ("x",))[:] = [0.0, 1.0]
                ds.createVariable("t", "f8", ("y", "x"))[:] = numpy.zeros((2, 2))
    p = _PROG["p"]
    p.commands = {}
    for name, fz, key in {"csv": PRODUCERS, "netcdf": NC_PRODUCERS, "nonfinite": NF_PRODUCERS}[MODE["libs"]]:
        p.add_command(C.ConstFZ if fz else C.ConstNF, name, {"Key": key})
        p.commands[name].run()
    return p


def _sq(shape):
    """shape without its length-1 axes: a (1, 2, 2) variable (one time step) next to a (2, 2) grid is a pair worth trying - whatever the
    consumer makes of it (MixedArrayShapes today), the producers stay as they are"""
    return tuple(d for d in shape if d != 1)


def _consumer_events(results):
    """results: list of (name, fuzzy, shape) present.  Yields event descriptors (cmd, preset index, input names)."""
    cmds = list(SIG.DATA_COMMANDS) + ["PrintVars", "EEMSWrite"]
    for cmd in cmds:
        if cmd in ("PrintVars", "EEMSWrite"):
            fzreq = "*"
            ar = "n"
            npres = 1
        else:
            fzreq = SIG.input_fuzz(cmd)
            ar = D.arity(cmd)
            npres = None
        cands = [r for r in results if fzreq == "*" or (fzreq == "fz") == r[1]]
        if ar == "1":
            choices = [(r,) for r in cands]
        elif ar == "2":
            choices = [c for c in itertools.product(cands, repeat=2) if _sq(c[0][2]) == _sq(c[1][2])]
        else:
            choices = [(r,) for r in cands] + [c for c in itertools.product(cands, repeat=2) if _sq(c[0][2]) == _sq(c[1][2])]
        for ch in choices:
            n = len(ch)
            k = npres or len(D.presets_small(cmd, n))
            for pi in range(k):
                yield (cmd, pi, tuple(r[0] for r in ch))


def _apply(p, idx, ev, workdir):
    """add consumer #idx per event ev and evaluate it; returns (name, outcome)"""
    from mpilot.exceptions import MPilotError

    cmd, pi, ins = ev
    name = "c%d" % idx
    if cmd in ("reread", "rerun"):
        try:
            with numpy.errstate(all="ignore"):
                if cmd == "reread":
                    p.commands[ins[0] if ins[0] in p.commands else next(iter(p.commands))].result
                else:
                    p.run()
            return None, cmd
        except MPilotError as exc:
            return None, cmd + ":err:" + type(exc).__name__
    if cmd == "PrintVars":
        args = {"InFieldNames": list(ins), "OutFileName": os.path.join(workdir, "pv_%d.txt" % idx)}
        cls = p.find_command_class("PrintVars")
    elif cmd == "EEMSWrite" and MODE["libs"] == "netcdf":
        args = {"OutFieldNames": list(ins), "OutFileName": os.path.join(workdir, "w_%d.nc" % idx), "DimensionFileName": os.path.join(workdir, "tpl.nc"),
                "DimensionFieldName": "t"}
        cls = p.find_command_class("EEMSWrite")
    elif cmd == "EEMSWrite":
        args = {"OutFieldNames": list(ins), "OutFileName": os.path.join(workdir, "w_%d.csv" % idx)}
        cls = p.find_command_class("EEMSWrite")
    else:
        params = D.presets_small(cmd, len(ins))[pi]
        slots = SIG.result_slots(cmd)
        args = dict(params)
        if len(slots) == 2:
            args[slots[0][0]], args[slots[1][0]] = ins[0], ins[1]
        elif slots[0][1]:
            args[slots[0][0]] = list(ins)
        else:
            args[slots[0][0]] = ins[0]
        cls = p.find_command_class(cmd)
    p.add_command(cls, name, args)
    try:
        with numpy.errstate(all="ignore"):
            p.commands[name].result
        return name, "ok"
    except MPilotError as exc:
        return name, "err:" + type(exc).__name__


def _results_of(p):
    out = []
    for name, c in p.commands.items():
        if c.is_finished and isinstance(c._result, numpy.ndarray):
            out.append((name, bool(getattr(c, "is_fuzzy", False)), c._result.shape))
    return out


def cases(tier):
    # one case per first event; the case explores all second (and third) events
    p = None
    base = [(n, fz, _table()[k]().shape) for n, fz, k in PRODUCERS]
    evs = list(_consumer_events(base))
    for i, ev in enumerate(evs):
        yield ("hist", ev, tier, "csv")
    yield ("hist", ("reread", 0, ("pf",)), tier, "csv")
    # NetCDF library set: 2-D producers, the NetCDF writer among the consumers (first event = every writer form and every fuzzy/non-fuzzy
    # n-ary and unary command over the 2-D producers)
    nf_base = [(n, fz, (4,)) for n, fz, k in NF_PRODUCERS]
    for ev in _consumer_events(nf_base):
        if ev[1] == 0:
            yield ("hist", ev, tier, "nonfinite")
    nc_base = [(n, fz, (1, 2, 2) if k == "f_3d" else (2, 2)) for n, fz, k in NC_PRODUCERS]
    for ev in _consumer_events(nc_base):
        if ev[0] == "EEMSWrite" or ev[1] == 0:
            yield ("hist", ev, tier, "netcdf")


def run(case):
    _, ev1, tier, libs = case
    MODE["libs"] = libs
    ev1 = (ev1[0], ev1[1], tuple(ev1[2]))
    workdir = snapshot.scratch_dir("c09_")
    viols, outcomes = [], {}
    states = transitions = evals = nontriv = 0
    seen = set()
    sample = None
    old_stdout = sys.stdout
    sys.stdout = io.StringIO()
    try:
        def replay(hist):
            """replay hist on a fresh program, checking the invariant after every event; returns (program, ok)"""
            p = _new_program(workdir)
            snaps = {n: (_snap(c._result), id(c._result)) for n, c in p.commands.items()}
            last = None
            for i, ev in enumerate(hist):
                name, oc = _apply(p, i, ev, workdir)
                last = oc
                for n, (s, oid) in snaps.items():
                    c = p.commands[n]
                    if id(c._result) != oid:
                        viols.append(V("C09:%s:result-object-replaced" % ev[0], "result object of %s replaced after %r" % (n, ev), history=[list(map(str, e)) for e in hist[:i + 1]]))
                    elif _snap(c._result) != s:
                        what = _diff(s, _snap(c._result))
                        viols.append(V("C09:%s:input-mutated:%s" % (ev[0], what), "%s changed (%s) after evaluating %s%r preset %d; history %r" % (
                            n, what, ev[0], ev[2], ev[1], hist[:i + 1]), history=[list(map(str, e)) for e in hist[:i + 1]]))
                        snaps[n] = (_snap(c._result), oid)  # blame each change once, on the event that made it
                if name and p.commands[name].is_finished:
                    snaps[name] = (_snap(p.commands[name]._result), id(p.commands[name]._result))
            return p, last, snaps

        p, oc1, snaps = replay([ev1])
        evals += 1
        transitions += 1
        k = "%s:%s" % (ev1[0], oc1)
        outcomes[k] = outcomes.get(k, 0) + 1
        seen.add(tuple(sorted(repr(s) for s, _ in snaps.values())))
        if oc1 and oc1.startswith("err"):
            nontriv += 1
        depth2 = list(_consumer_events(_results_of(p))) + [("reread", 0, ("c0",)), ("rerun", 0, ())]
        if libs == "nonfinite":
            depth2 = [e for e in depth2 if e[1] == 0 and len(e[2]) <= 1 or e[0] in ("EEMSWrite", "PrintVars", "reread", "rerun")]
        if libs == "netcdf" and ev1[0] != "EEMSWrite":
            depth2 = [e for e in depth2 if e[0] in ("EEMSWrite", "reread", "rerun")]  # non-writer pairs are covered by the CSV family
        derived = {n for n in p.commands if n.startswith("c")}
        for ev2 in depth2:
            p2, oc2, snaps2 = replay([ev1, ev2])
            evals += 2
            transitions += 1
            nontriv += 1
            k = "%s:%s" % (ev2[0], oc2)
            outcomes[k] = outcomes.get(k, 0) + 1
            canon = tuple(sorted(repr(s) for s, _ in snaps2.values()))
            new = canon not in seen
            seen.add(canon)
            sample = {"history": [list(map(str, ev1)), list(map(str, ev2))], "last_outcome": oc2}
            if tier == "thorough" and new and oc2 == "ok" and ev2[0] not in ("reread", "rerun"):
                res3 = _results_of(p2)
                for ev3 in _consumer_events(res3):
                    if not any(n.startswith("c") for n in ev3[2]):
                        continue
                    if ev3[1] != 0:
                        continue
                    _, oc3, snaps3 = replay([ev1, ev2, ev3])
                    evals += 3
                    transitions += 1
                    nontriv += 1
                    seen.add(tuple(sorted(repr(s) for s, _ in snaps3.values())))
            if len(viols) > 40:
                del viols[40:]
        states = len(seen)
    finally:
        sys.stdout = old_stdout
        import shutil
        shutil.rmtree(workdir, ignore_errors=True)
    return {"evals": evals, "nontrivial": nontriv, "judged": transitions, "states": states, "transitions": transitions, "viols": viols,
            "outcomes": outcomes, "sample": sample}


def _diff(a, b):
    if a[0] == "obj" or b[0] == "obj":
        return "object"
    if a[0] != b[0]:
        return "shape"
    if a[1] != b[1]:
        return "dtype"
    if a[2] != b[2]:
        return "mask"
    if a[3] != b[3]:
        return "values"
    return "container"
