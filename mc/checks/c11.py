"""C11 — line numbers in parse trees and errors are the true source lines.

(a) renderings: the structural programs of C10 with every combination of <=2 (thorough <=3) line-affecting layout deviations
    (blank lines, comment lines, trailing comments, arguments / list elements on their own lines, raw newline inside a quoted
    string), LF and CRLF; the renderer records the true line of every command, argument, list element and tuple key.
(b) histories: explicit-state BFS (depth <=3) over events on ONE parser object and in one process
    {new Parser(), parse(valid multi-line text), parse(text with a syntax error), parse(EEMS-2 text), parse(CRLF text),
     Program.from_source(...)}; in every state the probe parse must equal the probe parse on a fresh parser.
(c) fault injection: every single fault (unknown command, duplicate result, missing / undeclared parameter, wrong kind, dangling
    reference, fuzziness / output-kind mismatch, execute-time error) at every position of multi-line valid models in 4 layouts;
    the raised error must carry the line known by construction; the same through the command-line tool ('-->' line).
"""
import io
import itertools
import os

from ..core import V, bfs
from .. import snapshot
from ..ref import grammar as G
from . import c10

ID = "C11"
LEVEL = "model_checking"
CHUNK = 1
RULE = ("(a) every rendering with <=k line-affecting deviations, tree lines vs renderer's recorded lines; (b) BFS over parser-object "
        "histories, state = (history), canonical form = (lexer line counter, version flag, probe result); (c) every single fault x "
        "position x layout; non-trivial = distinct texts / distinct canonical states / distinct (fault, position, layout)")
ASSUMPTIONS = ["the head 'Result = Command(' is kept on one line (start line otherwise undefined)",
               "argument-level faults may report the argument's first line or the line of the offending list element",
               "errors raised inside execute() may carry no line or any line of that command"]
CSV_LIBS = ("mpilot.libraries.eems.basic", "mpilot.libraries.eems.csv", "mpilot.libraries.eems.fuzzy")


def BOUND(tier):
    return ("renderings <=2 line deviations LF+CRLF; histories depth 3 over 8 events; all single faults x 4 layouts"
            if tier == "quick" else "renderings <=3 line deviations; histories depth 4; all single faults x 4 layouts x 2 models, API + CLI")


# ------------------------------------------------------------------------------------------------ (a)

def _line_item(it):
    return any("\n" in a for a in it.alts)


def cases(tier):
    k = 2 if tier == "quick" else 3
    for si in range(len(c10.STRUCT)):
        its = G.items_of(c10.STRUCT[si])
        idx = [i for i, it in enumerate(its) if len(it.alts) > 1 and _line_item(it)]
        for first in range(-1, len(idx)):
            yield ("render", si, first, k)
    for first in range(-1, len(EVENTS)):
        yield ("hist", 3 if tier == "quick" else 4, first)
    for model in range(len(FAULT_MODELS)):
        for layout in range(7):
            for via in ("api", "cli"):
                yield ("fault", model, layout, via)
    yield ("syntaxlines",)
    yield ("nested",)


def _run_render(case):
    from mpilot.parser.parser import Parser

    _, si, first, k = case
    prog = c10.STRUCT[si]
    its = G.items_of(prog)
    idx = [i for i, it in enumerate(its) if len(it.alts) > 1 and _line_item(it)]
    viols, outcomes, seen = [], {}, set()
    evals = 0
    sample = None

    def layouts():
        if first < 0:
            yield {}
            return
        i0 = idx[first]
        rest = idx[first + 1:]
        for a0 in range(1, len(its[i0].alts)):
            if "\n" not in its[i0].alts[a0]:
                continue
            base = {i0: a0}
            yield dict(base)
            for depth in range(1, k):
                for combo in itertools.combinations(rest, depth):
                    for alts in itertools.product(*[[a for a in range(1, len(its[j].alts)) if "\n" in its[j].alts[a]] for j in combo]):
                        lay = dict(base)
                        lay.update(zip(combo, alts))
                        yield lay

    for lay in layouts():
        for crlf in (False, True):
            text, starts = G.render(its, lay, crlf)
            evals += 1
            seen.add(hash(text))
            want = G.lines_only(G.expected(prog, its, starts))
            tag = {"text": text, "crlf": crlf}
            sample = tag
            try:
                got_tree = G.tree_of(Parser().parse(text))
            except Exception as exc:
                outcomes["parse-failed"] = outcomes.get("parse-failed", 0) + 1
                continue  # C10's business
            got = G.lines_only(got_tree)
            if got != want:
                kind = "crlf" if crlf else ("newline-in-string" if any(isinstance(its[i].meta, tuple) and its[i].meta[0] in ("val", "tval", "key") for i in lay) else "layout")
                viols.append(V("C11:tree:wrong-line:" + kind, "lines %r, true lines %r for text %r" % (got, want, text), **tag))
                outcomes["wrong"] = outcomes.get("wrong", 0) + 1
            else:
                outcomes["ok:lines=%d" % (text.count("\n") + 1)] = outcomes.get("ok:lines=%d" % (text.count("\n") + 1), 0) + 1
        if len(viols) > 40:
            del viols[40:]
    return {"evals": max(evals, 1), "nontrivial": len(seen), "judged": evals, "viols": viols, "outcomes": outcomes, "sample": sample,
            "states": len(seen), "transitions": evals}


# ------------------------------------------------------------------------------------------------ (b)

VALID5 = "# header comment\nA = Cmd(P = 1,\n    Q = [a,\n         b])\nB = Cmd(P = 2)"
SYNERR = "A = Cmd(P = 1)\n\nB = Cmd(P = = 2)\nC = Cmd()"
V2TEXT = "READ(InFileName = x.csv, InFieldName = Foo)\nSUM(InFieldNames = [Foo],\n    NewFieldName = S)"
CRLFTEXT = "A = Cmd(P = 1)\r\n\r\n# c\r\nB = Cmd(P = [1,\r\n 2])\r\n"
STRNL = 'A = Cmd(P = "l1\nl2\nl3")\nB = Cmd(P = 1)'
MODEL3 = "X = EEMSRead(InFileName = /nonexistent/in.csv, InFieldName = X)\nY = CvtToFuzzy(InFieldName = X)"
MODEL2 = "READ(InFileName = /nonexistent/in.csv, InFieldName = X)\nCVTTOFUZZY(InFieldName = X, NewFieldName = Y)"
PROBE = "\nP1 = Cmd(A = 1,\n   B = [x,\n y])\n\nP2 = Other(K = \"s\")"
EVENTS = [("new",), ("parse", "VALID5"), ("parse", "SYNERR"), ("parse", "V2TEXT"), ("parse", "CRLFTEXT"), ("parse", "STRNL"),
          ("from_source", "MODEL3"), ("from_source", "MODEL2")]
TEXTS = {"VALID5": VALID5, "SYNERR": SYNERR, "V2TEXT": V2TEXT, "CRLFTEXT": CRLFTEXT, "STRNL": STRNL, "MODEL3": MODEL3, "MODEL2": MODEL2}


def _run_hist(case):
    from mpilot.parser.parser import Parser
    from mpilot.program import Program

    depth, first = case[1], case[2]
    fresh = Parser().parse(PROBE)
    fresh_probe = (G.tree_of(fresh), fresh.version)
    fresh_lines = {name: _safe_tree(Parser(), TEXTS[name]) for name in ("VALID5", "V2TEXT", "CRLFTEXT", "STRNL")}
    counter = {"n": 0}

    def build(hist):
        parser = Parser()
        observed = []
        for ev in hist:
            if ev[0] == "new":
                parser = Parser()
                observed.append(None)
            elif ev[0] == "parse":
                observed.append(_safe_tree(parser, TEXTS[ev[1]]))
            else:
                try:
                    Program.from_source(TEXTS[ev[1]], libraries=CSV_LIBS, working_dir="/nonexistent")
                    observed.append("loaded")
                except Exception as exc:
                    observed.append("error:" + type(exc).__name__)
        counter["n"] += 1
        lx = getattr(parser, "lexer", None)
        fields = (getattr(lx, "lineno", None), getattr(parser, "eems_v2", None), tuple(hist))
        return parser, observed, fields

    def canon(st):
        # no merging of histories: an over-fine canonical form only costs time (585 histories at depth 3)
        return st[2]

    def invariant(hist, st):
        parser, observed, _ = st
        out = []
        tag = {"history": [list(e) for e in hist]}
        # every parse event in the history must have produced what a fresh parser produces for that text
        for ev, ob in zip(hist, observed):
            if ev[0] == "parse" and ev[1] in fresh_lines and ob != fresh_lines[ev[1]]:
                kind = "version" if (ob and fresh_lines[ev[1]] and ob[0] == "ok" and fresh_lines[ev[1]][0] == "ok" and ob[1] == fresh_lines[ev[1]][1]) else "lines"
                out.append(V("C11:history:%s-depend-on-history" % kind, "parse(%s) after %r gave %r, fresh parser gives %r" % (
                    ev[1], hist[:hist.index(ev)], _brief(ob), _brief(fresh_lines[ev[1]])), **tag))
                break
        try:
            pn = parser.parse(PROBE)
            got = (G.tree_of(pn), pn.version)
        except Exception as exc:
            out.append(V("C11:history:probe-raises:" + type(exc).__name__, "probe parse after %r raised %r" % (hist, exc), **tag))
            return out
        if got[0] != fresh_probe[0]:
            out.append(V("C11:history:lines-depend-on-history", "probe lines after %r: %r, fresh parser: %r" % (hist, G.lines_only(got[0]), G.lines_only(fresh_probe[0])), **tag))
        elif got[1] != fresh_probe[1]:
            out.append(V("C11:history:version-depends-on-history", "probe version after %r is %r, fresh parser %r" % (hist, got[1], fresh_probe[1]), **tag))
        return out

    if first < 0:
        r = bfs([], lambda h, s: [], build, canon, invariant, 0)
    else:
        r = bfs([EVENTS[first]], lambda h, s: EVENTS, build, canon, invariant, depth - 1)
        r["transitions"] += 1
    return {"evals": counter["n"], "nontrivial": r["states"], "judged": r["transitions"], "states": r["states"], "transitions": r["transitions"],
            "viols": r["viols"][:40], "outcomes": {"hist-states=%d" % r["states"]: 1},
            "sample": {"events": [list(e) for e in EVENTS], "probe": PROBE, "depth": depth, "states": r["states"], "transitions": r["transitions"]}}


def _safe_tree(parser, text):
    try:
        pn = parser.parse(text)
        return ("ok", G.tree_of(pn), pn.version)
    except SyntaxError as exc:
        return ("SyntaxError",)
    except Exception as exc:
        return ("raw:" + type(exc).__name__,)


def _brief(ob):
    if ob and ob[0] == "ok":
        return ("lines", G.lines_only(ob[1]), "version", ob[2])
    return ob


# ------------------------------------------------------------------------------------------------ (c)

def _m1():
    q = lambda s: ("q", s)
    b = lambda s: ("bare", s)
    return [
        ("A", "EEMSRead", [("InFileName", q("input.csv")), ("InFieldName", q("A"))]),
        ("B", "EEMSRead", [("InFileName", q("input.csv")), ("InFieldName", b("B")), ("MissingVal", ("int", "-9999"))]),
        ("A_Fz", "CvtToFuzzy", [("InFieldName", b("A")), ("TrueThreshold", ("int", "10")), ("FalseThreshold", ("int", "2"))]),
        ("B_Fz", "CvtToFuzzy", [("InFieldName", b("B")), ("Direction", b("HighToLow"))]),
        ("U", "FuzzyUnion", [("InFieldNames", ("list", [b("A_Fz"), b("B_Fz")]))]),
        ("S", "WeightedSum", [("InFieldNames", ("list", [b("A"), b("B")])), ("Weights", ("list", [("int", "1"), ("dec", "0.5")]))]),
        ("Out", "EEMSWrite", [("OutFileName", q("out.csv")), ("OutFieldNames", ("list", [b("A"), b("U"), b("S")]))]),
    ]


def _m2():
    q = lambda s: ("q", s)
    b = lambda s: ("bare", s)
    return [
        ("U", "FuzzyOr", [("InFieldNames", ("list", [b("F1"), b("F2")])), ("Metadata", ("tuple", [("bare", "DisplayName", q("or")), ("bare", "Note", q("n"))]))]),
        ("F1", "CvtToFuzzyCurve", [("InFieldName", b("A")), ("RawValues", ("list", [("int", "0"), ("int", "5"), ("int", "10")])),
                                  ("FuzzyValues", ("list", [("int", "-1"), ("int", "0"), ("int", "1")]))]),
        ("F2", "CvtToBinary", [("InFieldName", b("A")), ("Threshold", ("int", "5")), ("Direction", b("LowToHigh"))]),
        ("A", "EEMSRead", [("InFileName", q("input.csv")), ("InFieldName", q("A")), ("DataType", b("Integer"))]),
        ("N", "FuzzyNot", [("InFieldName", b("U"))]),
    ]


def _m3():
    """TWIN lines: three consecutive commands whose argument line has the same text (`InFieldName = A`); a fault in the last one has an
    identical, innocent line one to three lines above it"""
    q = lambda s: ("q", s)
    b = lambda s: ("bare", s)
    return [
        ("A", "EEMSRead", [("InFileName", q("input.csv")), ("InFieldName", b("A"))]),
        ("ACopy", "Copy", [("InFieldName", b("A"))]),
        ("AFz", "CvtToFuzzy", [("InFieldName", b("A"))]),
        ("NotA", "FuzzyNot", [("InFieldName", b("AFz"))]),
        ("Twice", "Copy", [("InFieldName", b("A"))]),
        ("Out", "EEMSWrite", [("OutFileName", q("out.csv")), ("OutFieldNames", ("list", [b("ACopy"), b("NotA"), b("Twice")]))]),
    ]


def _m4():
    """EMPTY lists as values (`Metadata = []`, an empty input list) that are not the first argument of their command: nothing to resolve in
    them, but they are arguments with a line of their own"""
    q = lambda s: ("q", s)
    b = lambda s: ("bare", s)
    return [
        ("A", "EEMSRead", [("InFileName", q("input.csv")), ("InFieldName", b("A")), ("Metadata", ("list", []))]),
        ("AFz", "CvtToFuzzy", [("InFieldName", b("A")), ("Metadata", ("list", [])), ("TrueThreshold", ("int", "10")), ("FalseThreshold", ("int", "0"))]),
        ("Out", "EEMSWrite", [("OutFileName", q("out.csv")), ("Metadata", ("list", [])), ("OutFieldNames", ("list", [b("A"), b("AFz")]))]),
    ]


MODELS = [_m1(), _m2()]
FAULT_MODELS = MODELS + [_m3(), _m4()]  # (C12 / C15 use MODELS; the twin-line model only serves the fault family of this check)


def _layout(its, which):
    lay = {}
    if which == 0:
        return lay
    for i, it in enumerate(its):
        if it.meta == "nl" and "\n    " in it.alts and which in (1, 2, 3):
            prev = its[i - 1].meta
            if prev in ("lparen", "comma") or (which == 3 and "\n" in it.alts):
                lay[i] = it.alts.index("\n    ")
        if it.meta == "nl" and which == 3 and "\n" in it.alts and i not in lay:
            lay[i] = it.alts.index("\n")
        if which == 5 and it.meta == "sp" and "\n  " in it.alts and its[i - 1].meta == "eq":
            lay[i] = it.alts.index("\n  ")  # layout 5: "Name =" ends the line, the value follows on the next one
        if which == 5 and it.meta == "nl" and "\n    " in it.alts and its[i - 1].meta in ("lparen", "comma"):
            lay[i] = it.alts.index("\n    ")
        if it.meta == "between" and which in (2, 3):
            lay[i] = 2 if which == 2 else 1  # comment line / blank line
        if it.meta == "lead" and which == 2:
            lay[i] = it.alts.index(G.COMMENT + "\n")
        if it.meta == "lead" and which == 6:
            lay[i] = it.alts.index("\n\n")  # layout 6: the file begins with two blank lines
        if which == 6 and it.meta == "nl" and "\n    " in it.alts and its[i - 1].meta in ("lparen", "comma"):
            lay[i] = it.alts.index("\n    ")
    return lay


def _faults(model):
    """(fault name, mutated model, (cmd index, arg index or None), acceptable error classes, level)"""
    import copy

    out = []
    for ci, (res, name, args) in enumerate(model):
        m = copy.deepcopy(model)
        m[ci] = (res, "NoSuchCommandXYZ", args)
        out.append(("unknown-command", m, (ci, None), ("CommandDoesNotExist",), "command"))
        if ci > 0:
            m = copy.deepcopy(model)
            m[ci] = (model[0][0], name, args)
            out.append(("duplicate-result", m, (ci, None), ("DuplicateResult",), "command"))
        for ai, (an, v) in enumerate(args):
            if an in ("Metadata", "MissingVal", "Direction", "TrueThreshold", "FalseThreshold", "DataType"):
                pass
            else:
                m = copy.deepcopy(model)
                m[ci] = (res, name, args[:ai] + args[ai + 1:])
                out.append(("missing-parameter", m, (ci, None), ("MissingParameters",), "command"))
            m = copy.deepcopy(model)
            m[ci] = (res, name, args[:ai] + [("Bogus" + an, v)] + args[ai + 1:])
            # renaming a required parameter gives both MissingParameters (command line) and NoSuchParameter (argument line)
            out.append(("undeclared-parameter", m, (ci, ai), ("NoSuchParameter", "MissingParameters"), "either-name"))
            m = copy.deepcopy(model)
            m[ci] = (res, name, args + [("Extra", ("int", "1"))])
            out.append(("extra-parameter", m, (ci, len(args)), ("NoSuchParameter",), "argument-name"))
            if v[0] == "list":
                m = copy.deepcopy(model)
                m[ci] = (res, name, args[:ai] + [(an, ("bare", "notalist"))] + args[ai + 1:])
                out.append(("wrong-kind-scalar-for-list", m, (ci, ai), ("ParameterNotValid", "ResultDoesNotExist"), "argument"))
                if v[1] and v[1][0][0] == "bare":
                    m = copy.deepcopy(model)
                    m[ci] = (res, name, args[:ai] + [(an, ("list", v[1][:-1] + [("bare", "Dangling")]))] + args[ai + 1:])
                    out.append(("dangling-reference-in-list", m, (ci, ai), ("ResultDoesNotExist",), "argument"))
                if v[1] and v[1][0][0] in ("int", "dec"):
                    m = copy.deepcopy(model)
                    m[ci] = (res, name, args[:ai] + [(an, ("list", v[1][:-1] + [("bare", "word")]))] + args[ai + 1:])
                    out.append(("wrong-kind-in-list", m, (ci, ai), ("ParameterNotValid",), "argument"))
            elif v[0] == "int" and an != "MissingVal":
                m = copy.deepcopy(model)
                m[ci] = (res, name, args[:ai] + [(an, ("bare", "notanumber"))] + args[ai + 1:])
                out.append(("wrong-kind-word-for-number", m, (ci, ai), ("ParameterNotValid",), "argument"))
            elif v[0] == "bare" and an == "InFieldName" and name != "EEMSRead":
                m = copy.deepcopy(model)
                m[ci] = (res, name, args[:ai] + [(an, ("bare", "Dangling"))] + args[ai + 1:])
                out.append(("dangling-reference", m, (ci, ai), ("ResultDoesNotExist",), "argument"))
            elif an == "InFileName":
                m = copy.deepcopy(model)
                m[ci] = (res, name, args[:ai] + [(an, ("q", "missing_file.csv"))] + args[ai + 1:])
                out.append(("path-does-not-exist", m, (ci, ai), ("PathDoesNotExist",), "argument"))
    # fuzziness / kind mismatches and execute-time errors, model-specific by name
    names = [c[0] for c in model]
    for ci, (res, name, args) in enumerate(model):
        for ai, (an, v) in enumerate(args):
            if name in ("FuzzyUnion", "FuzzyOr") and v[0] == "list":
                m = copy.deepcopy(model)
                m[ci] = (res, name, args[:ai] + [(an, ("list", [("bare", "A")] + v[1][1:]))] + args[ai + 1:])
                out.append(("fuzziness-mismatch-nonfuzzy-given", m, (ci, ai), ("ResultNotFuzzy",), "argument"))
            if name in ("WeightedSum",) and an == "InFieldNames":
                fz = "A_Fz" if "A_Fz" in names else "F1"
                m = copy.deepcopy(model)
                m[ci] = (res, name, args[:ai] + [(an, ("list", [("bare", fz)] + v[1][1:]))] + args[ai + 1:])
                out.append(("fuzziness-mismatch-fuzzy-given", m, (ci, ai), ("ResultIsFuzzy",), "argument"))
                m = copy.deepcopy(model)
                m[ci] = (res, name, args[:ai] + [(an, v)] + [("Weights", ("list", [("int", "1")]))])
                out.append(("execute-mismatched-weights", m, (ci, None), ("MismatchedWeights",), "execute"))
            if name == "FuzzyNot" and an == "InFieldName":
                m = copy.deepcopy(model)
                m[ci] = (res, name, [(an, ("bare", "A"))])
                out.append(("fuzziness-mismatch-nonfuzzy-given", m, (ci, ai), ("ResultNotFuzzy",), "argument"))
            if name == "CvtToFuzzy" and an == "Direction":
                m = copy.deepcopy(model)
                m[ci] = (res, name, args[:ai] + [(an, ("bare", "Sideways"))] + args[ai + 1:])
                out.append(("execute-invalid-direction", m, (ci, ai), ("InvalidDirection",), "execute"))
            if name == "CvtToFuzzy" and an == "FalseThreshold":
                m = copy.deepcopy(model)
                m[ci] = (res, name, args[:ai] + [(an, ("int", "10"))] + args[ai + 1:])
                out.append(("execute-equal-thresholds", m, (ci, None), ("InvalidThresholds",), "execute"))
            if name == "CvtToFuzzyCurve" and an == "FuzzyValues":
                m = copy.deepcopy(model)
                m[ci] = (res, name, args[:ai] + [(an, ("list", v[1][:-1]))] + args[ai + 1:])
                out.append(("execute-mixed-lengths", m, (ci, None), ("MixedArrayLengths",), "execute"))
            if name == "EEMSWrite" and an == "OutFieldNames":
                m = copy.deepcopy(model)
                m[ci] = (res, name, args[:ai] + [(an, ("list", v[1] + [("bare", "Out")]))] + args[ai + 1:])
                out.append(("self-reference", m, (ci, None), ("RecursiveModelStructure", "ResultTypeNotValid"), "execute"))
            if name == "EEMSRead" and an == "InFieldName" and ci == 0:
                m = copy.deepcopy(model)
                m[ci] = (res, name, args[:ai] + [(an, ("q", "NoSuchColumn"))] + args[ai + 1:])
                out.append(("execute-missing-column", m, (ci, None), ("InvalidDataFile",), "execute"))
    return out


def _arg_span(its, starts, ci, ai):
    """(first line, last line) of argument ai of command ci in the rendering"""
    first = last = None
    inside = False
    depth = 0
    for i, it in enumerate(its):
        if it.meta == ("arg", ci, ai):
            first = starts[i][1]
            inside = True
            continue
        if inside:
            if isinstance(it.meta, tuple) and it.meta[0] == "arg" or it.meta == "rparen":
                break
            if it.meta not in ("nl", "sp", "gap", "sp-after-value", "comma", "trailing-comma", "between", "tail") or it.meta == "rbrack":
                last = starts[i][1]
    return first, (last or first)


def _cmd_span(its, starts, ci):
    first = last = None
    for i, it in enumerate(its):
        if it.meta == ("cmd", ci):
            first = starts[i][1]
        elif first is not None and it.meta == "rparen":
            last = starts[i][1]
            break
    return first, last


def _run_fault(case):
    from mpilot.exceptions import MPilotError
    from mpilot.program import Program

    _, mi, layout, via = case
    work = snapshot.scratch_dir("c11_")
    with open(os.path.join(work, "input.csv"), "w") as f:
        f.write("A,B\n10,5\n8,-9999\n7,3\n5,10\n2,8\n")
    viols, outcomes = [], {}
    evals = judged = 0
    sample = None
    model = FAULT_MODELS[mi]
    for fname, fm, (ci, ai), classes, level in [("none", model, (0, None), (), "none")] + _faults(model):
        its = G.items_of(fm)
        lay = _layout(its, 1 if layout == 4 else layout)
        crlf = False
        text, starts = G.render(its, lay, crlf)
        if layout == 4:
            # layout 4: a first comment line containing characters that str.splitlines() treats as line boundaries but the MPilot lexer (and
            # text-mode file reading) does not: form feed, vertical tab, FS/GS/RS, NEL, LINE/PARAGRAPH SEPARATOR.  True lines shift by one.
            text = "# page\x0cbreak \x0b \x1c\x1d\x1e \x85 \u2028 \u2029 end\n" + text
            starts = [(o + 1, ln + 1) for o, ln in starts]
        evals += 1
        cmd_first, cmd_last = _cmd_span(its, starts, ci)
        tag = {"fault": fname, "at": [ci, ai], "layout": layout, "text": text, "via": via}
        sample = tag
        err = None
        stderr = ""
        for stale in ("out.csv",):
            if os.path.exists(os.path.join(work, stale)):
                os.remove(os.path.join(work, stale))
        if via == "api":
            try:
                import contextlib

                with contextlib.redirect_stdout(io.StringIO()):
                    p = Program.from_source(text, libraries=CSV_LIBS, working_dir=work)
                    p.run()
            except MPilotError as exc:
                err = exc
            except Exception as exc:
                outcomes["raw:" + type(exc).__name__] = outcomes.get("raw:" + type(exc).__name__, 0) + 1
                continue  # C13's business
            if err is None and fname == "none":
                # the lines the loaded program itself holds (what every later error of a command reports): Command.lineno is the line of
                # the command, argument_lines[name] the line on which that argument starts - in every layout
                for ci2, (res2, name2, args2) in enumerate(fm):
                    cmd2 = p.commands.get(res2)
                    if cmd2 is None:
                        continue
                    first2, _ = _cmd_span(its, starts, ci2)
                    if cmd2.lineno != first2:
                        viols.append(V("C11:program:command-lineno-wrong", "command %s of the loaded program holds line %r, it starts on line %r (layout %d)" % (
                            res2, cmd2.lineno, first2, layout), **tag))
                        break
                    for ai2, (an2, _v2) in enumerate(args2):
                        a2, b2 = _arg_span(its, starts, ci2, ai2)
                        got2 = cmd2.argument_lines.get(an2)
                        # (a list argument whose value starts on a later line than its name reports the line of the list: inside the span)
                        if got2 is None or not (a2 <= got2 <= b2):
                            viols.append(V("C11:program:argument-line-wrong", "argument %s of %s: argument_lines says %r, it spans lines %r-%r (layout %d)" % (
                                an2, res2, got2, a2, b2, layout), **tag))
                            break
            if err is None:
                outcomes["%s:no-error" % fname] = outcomes.get("%s:no-error" % fname, 0) + 1
                if fname != "none" and level != "execute":
                    pass  # acceptance is C12's business
                continue
            got_line = getattr(err, "lineno", None)
            cls = type(err).__name__
        else:
            from click.testing import CliRunner
            from mpilot.cli import mpilot as cli

            path = os.path.join(work, "model_%d.mpt" % evals)
            with open(path, "w", newline="", encoding="utf-8") as f:
                f.write(text + "\n")
            try:
                r = CliRunner(mix_stderr=False).invoke(cli.main, ["eems-csv", path])
            except TypeError:
                r = CliRunner().invoke(cli.main, ["eems-csv", path])
            stderr = getattr(r, "stderr", "") or ""
            os.remove(path)
            if r.exit_code == 0:
                outcomes["%s:cli-exit-0" % fname] = outcomes.get("%s:cli-exit-0" % fname, 0) + 1
                continue
            if r.exception is not None and not isinstance(r.exception, SystemExit):
                outcomes["cli-raw:" + type(r.exception).__name__] = outcomes.get("cli-raw:" + type(r.exception).__name__, 0) + 1
                continue
            err_lines = stderr.split("\n")
            marks = [i for i, ln in enumerate(err_lines) if ln.startswith("--> ")]
            src_lines = text.split("\n")
            cls = "cli"
            if not marks:
                got_line = None
            else:
                mi_ = marks[0]
                marked = err_lines[mi_][4:]
                # the context printed around the arrow (lines indented by four blanks) places it: the marked line is the source line whose
                # neighbours are the printed neighbours (the text alone may occur several times in a file)
                before, after = [], []
                j = mi_ - 1
                while j >= 0 and err_lines[j].startswith("    ") and len(before) < 3:
                    before.insert(0, err_lines[j][4:])
                    j -= 1
                j = mi_ + 1
                while j < len(err_lines) and err_lines[j].startswith("    ") and len(after) < 3:
                    after.append(err_lines[j][4:])
                    j += 1
                cands = [i + 1 for i, ln in enumerate(src_lines) if ln == marked]
                placed = [c for c in cands if src_lines[max(0, c - 1 - len(before)):c - 1] == before and src_lines[c:c + len(after)] == after]
                # (a context that cannot be matched at all is left to the text-only resolution: blank context lines are printed unindented)
                got_line = (placed or cands) if cands else -1
        judged += 1
        # acceptable lines
        if level == "command":
            ok_lines = {cmd_first}
        elif level == "argument":
            a, b = _arg_span(its, starts, ci, ai)
            ok_lines = set(range(a, b + 1))
        elif level == "either":
            a, b = _arg_span(its, starts, ci, ai)
            ok_lines = set(range(a, b + 1)) | {cmd_first}
        elif level in ("argument-name", "either-name"):
            # the offending token is the parameter NAME: its line (not the line of a value that follows on a later line)
            a, b = _arg_span(its, starts, ci, ai)
            ok_lines = {a} | ({cmd_first} if level == "either-name" else set())
            args_ = fm[ci][2]
            if ai < len(args_) and args_[ai][1][0] in ("list", "tuple"):
                # (a LIST argument is known to the program by the line on which its list starts, as for argument_lines above: within the span)
                ok_lines |= set(range(a, b + 1))
        else:
            ok_lines = set(range(cmd_first, (cmd_last or cmd_first) + 1)) | {None}
        if via == "api" and classes and cls not in classes:
            # a different error class than injected: only judge if we can still place it (C12 judges the class)
            outcomes["%s:other-error:%s" % (fname, cls)] = outcomes.get("%s:other-error:%s" % (fname, cls), 0) + 1
            if cls == "UnexpectedError":
                continue
        if isinstance(got_line, list):
            good = any(g in ok_lines for g in got_line)
            shown = got_line
        else:
            good = got_line in ok_lines
            shown = got_line
        if good:
            outcomes["%s:%s:line-ok" % (fname, via)] = outcomes.get("%s:%s:line-ok" % (fname, via), 0) + 1
        else:
            if shown is None:
                kind = "no-line"
            elif shown == -1:
                kind = "marked-text-is-no-source-line"
            else:
                kind = "wrong-line"
            viols.append(V("C11:error:%s:%s:%s" % (kind, fname, via), "fault %s at command %d arg %r (layout %d): %s carries line %r, acceptable %r; text %r" % (
                fname, ci, ai, layout, cls, shown, sorted(x for x in ok_lines if x is not None), text), **tag))
    import shutil

    shutil.rmtree(work, ignore_errors=True)
    return {"evals": evals, "nontrivial": evals, "judged": judged, "viols": viols[:60], "outcomes": outcomes, "sample": sample,
            "states": evals, "transitions": evals}


def _run_syntaxlines(case):
    """texts with ONE syntax fault whose line is known by construction (a quoted string with an invalid escape, on one line or spread over three
    with the escape on its first / last line; a stray token before or after a multi-line string; a list mixing values and key:value pairs), after
    0-2 blank lines and as the first or second command: a syntax error need not carry a line, but a line it carries (attribute or "(line N)" in
    its text) is the line of the command, of the argument / string, or of the fault itself"""
    import re
    from mpilot.program import Program

    viols, outcomes = [], {}
    evals = judged = 0
    sample = None
    bad = ["\\x4", "C:\\Users\\me", "\\u12", "\\N{nope"]
    for lead in (0, 1, 2):
        for second in (False, True):
            pre = ["\n" * lead] + (["A = Cmd(\n    P = 1\n)\n"] if second else [])
            base = lead + (3 if second else 0)  # lines before the faulty command
            variants = []
            for esc in bad:
                variants.append(("escape:one-line", 'B = Cmd(\n    P = "x %s y",\n    Q = 2\n)\n' % esc, {base + 1, base + 2}))
                variants.append(("escape:first-line-of-three", 'B = Cmd(\n    P = "x %s y\n  second line\n  third line",\n    Q = 2\n)\n' % esc, {base + 1, base + 2}))
                variants.append(("escape:last-line-of-three", 'B = Cmd(\n    P = "first line\n  second line\n  x %s y",\n    Q = 2\n)\n' % esc, {base + 1, base + 2, base + 4}))
                variants.append(("escape:after-a-multi-line-string", 'B = Cmd(\n    P = "first line\n  second line",\n    Q = "x %s y"\n)\n' % esc, {base + 1, base + 4}))
            variants.append(("token:after-a-multi-line-string", 'B = Cmd(\n    P = "first line\n  second line",\n    = 2\n)\n', {base + 1, base + 4}))
            variants.append(("token:before-a-multi-line-string", 'B = Cmd(\n    = 2,\n    P = "first line\n  second line"\n)\n', {base + 1, base + 2}))
            variants.append(("character:after-a-multi-line-string", 'B = Cmd(\n    P = "first line\n  second line",\n    Q = 2 \u00a7\n)\n', {base + 1, base + 4}))
            variants.append(("mixed-list", 'B = Cmd(\n    P = "first line\n  second line",\n    Q = [a, b: c]\n)\n', {base + 1, base + 4}))
            for label, body, allowed in variants:
                text = "".join(pre) + body
                evals += 1
                tag = {"text": text, "fault": label, "lines_allowed": sorted(allowed)}
                sample = tag
                try:
                    Program.from_source(text, libraries=("mc.vlib.echo",))
                    outcomes["syntax:%s:accepted" % label] = outcomes.get("syntax:%s:accepted" % label, 0) + 1
                    continue  # (whether the text is rejected at all is C10 / C13)
                except SyntaxError as exc:
                    got = exc.lineno
                    msg = str(exc)[:120]
                    if got is None:
                        m = re.search(r"\bline\s+(\d+)", str(exc))
                        got = int(m.group(1)) if m else None
                except Exception as exc:
                    outcomes["syntax:%s:other:%s" % (label, type(exc).__name__)] = 1
                    continue
                judged += 1
                if got is not None and got not in allowed:
                    viols.append(V("C11:syntax-error:wrong-line:%s" % label, "the syntax error for a fault on line(s) %r carries line %r: %s" % (sorted(allowed), got, msg), **tag))
                k = "syntax:%s:%s" % (label, "no-line" if got is None else "right-line" if got in allowed else "wrong-line")
                outcomes[k] = outcomes.get(k, 0) + 1
    return {"evals": evals, "nontrivial": evals, "judged": judged, "viols": viols[:20], "outcomes": outcomes, "sample": sample, "states": 0, "transitions": 0}


NESTED = ("L", [[1, 2], [3, [4, 5]], [6]])


def _run_nested(case):
    """lists inside lists, as Program.from_source records them (ListArgument.lineno = the line on which that list opens, list_linenos = the
    line on which each item starts, at every depth): every way of starting the value, each inner list and each number on the same or on a
    new line (2^11 layouts of one nested value)"""
    from mpilot.arguments import ListArgument
    from mpilot.program import Program

    viols, outcomes = [], {}
    evals = judged = 0
    sample = None
    # flatten the value into tokens; a "gap" precedes every token that starts a list or a number
    toks = []

    def flat(v):
        if isinstance(v, list):
            toks.append(("open", None))
            for i, x in enumerate(v):
                if i:
                    toks.append(("comma", None))
                flat(x)
            toks.append(("close", None))
        else:
            toks.append(("num", v))

    flat(NESTED[1])
    gaps = [i for i, t in enumerate(toks) if t[0] in ("open", "num")]
    for bits in range(2 ** len(gaps)):
        line = 2
        out = ["X = Echo(\n    %s =" % NESTED[0]]
        starts = {}
        for i, (kind, v) in enumerate(toks):
            if i in gaps:
                if bits >> gaps.index(i) & 1:
                    out.append("\n        ")
                    line += 1
                else:
                    out.append(" ")
                starts[i] = line
            out.append({"open": "[", "close": "]", "comma": ","}.get(kind, str(v)))
        out.append("\n)\n")
        text = "".join(out)
        # expected tree of (open line, [item start lines], [children])
        pos = [0]

        def want():
            i = pos[0]
            node = {"line": starts[i], "items": [], "kids": []}
            pos[0] += 1
            while toks[pos[0]][0] != "close":
                if toks[pos[0]][0] == "comma":
                    pos[0] += 1
                    continue
                node["items"].append(starts[pos[0]])
                if toks[pos[0]][0] == "open":
                    node["kids"].append(want())
                else:
                    node["kids"].append(None)
                    pos[0] += 1
            pos[0] += 1
            return node

        exp = want()
        evals += 1
        tag = {"text": text}
        sample = tag
        try:
            prog = Program.from_source(text, libraries=("mc.vlib.echo",))
            arg = prog.commands["X"].arguments[0] if isinstance(prog.commands["X"].arguments, (list, tuple)) else prog.commands["X"].arguments[NESTED[0]]
        except Exception as exc:
            outcomes["nested:not-loaded:" + type(exc).__name__] = outcomes.get("nested:not-loaded:" + type(exc).__name__, 0) + 1
            continue  # (acceptance is C10's business)
        judged += 1

        def got(a):
            if not isinstance(a, ListArgument):
                return None
            return {"line": a.lineno, "items": list(a.list_linenos or []), "kids": [got(x) for x in a.value]}

        g = got(arg)
        if g != exp:
            viols.append(V("C11:program:nested-list-lines-wrong", "nested list lines recorded %r, true lines %r" % (g, exp), **tag))
        k = "nested:%s" % ("ok" if g == exp else "wrong")
        outcomes[k] = outcomes.get(k, 0) + 1
    return {"evals": evals, "nontrivial": evals, "judged": judged, "viols": viols[:20], "outcomes": outcomes, "sample": sample, "states": 0, "transitions": 0}


def run(case):
    case = tuple(case)
    if case[0] == "nested":
        return _run_nested(case)
    if case[0] == "syntaxlines":
        return _run_syntaxlines(case)
    if case[0] == "render":
        return _run_render(case)
    if case[0] == "hist":
        return _run_hist(case)
    return _run_fault(case)
