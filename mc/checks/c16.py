"""C16 — EEMS 2.0 command files translate to equivalent MPilot programs.

For all 25 EEMS 2.0 command names: the live table must have exactly the frozen key set and every target must exist in both
library sets.  For every name with a target: models (READ sources, conversions to fuzzy where needed, the command under test with
each argument preset of its target) x {with, without NewFieldName} x {with, without OutFileName} x {pure EEMS-2 file, one
MPilot-style command at each position}; the EEMS-2 text and the MPilot text produced by the REFERENCE rewriting (frozen name table
in mc/ref/sig.py; result name = NewFieldName else InFieldName; NewFieldName/OutFileName dropped from EEMS-2 commands only) must
load to structurally equal programs (or fail with the same error class) in both library sets and give equal results (CSV set).
"""
import contextlib
import io
import os

import numpy

from ..core import V
from .. import numdrv as D
from .. import snapshot
from ..ref import grammar as G
from ..ref import sig as SIG

ID = "C16"
LEVEL = "exploration"
CHUNK = 1
CSV = ("mpilot.libraries.eems.basic", "mpilot.libraries.eems.csv", "mpilot.libraries.eems.fuzzy")
NETCDF = ("mpilot.libraries.eems.basic", "mpilot.libraries.eems.netcdf", "mpilot.libraries.eems.fuzzy")
RULE = ("cases = (EEMS-2 name, preset, NewFieldName?, OutFileName?, mixed position, library set); each builds the EEMS-2 text and the "
        "reference-rewritten MPilot text, loads both and compares structure and results; non-trivial = distinct text pairs")
ASSUMPTIONS = ["frozen EEMS 2.0 name table in mc/ref/sig.py (SCORERANGEBENEFIT/COST have no MPilot equivalent)",
               "an EEMS-2 command with neither NewFieldName nor InFieldName has no defined result name: not judged"]


def BOUND(tier):
    return "25 names x all presets x NewFieldName? x OutFileName? x (pure + one MPilot-style command at each position) x 2 library sets; models of 3-6 commands"


def cases(tier):
    yield ("table",)
    for name, target in sorted(SIG.EEMS2.items()):
        if target is None:
            continue
        yield ("models", name, tier)


def _val(v):
    if isinstance(v, bool):
        return ("bare", "True" if v else "False")
    if isinstance(v, int):
        return ("int", str(v))
    if isinstance(v, float):
        return ("dec", repr(v))
    if isinstance(v, str):
        return ("bare", v) if G.bare_safe(v) else ("q", v)
    if isinstance(v, list):
        return ("list", [_val(x) for x in v])
    raise ValueError(v)


def _models(name):
    """yield (description, [v2 commands as (NAME, args dict-ordered list, new field name or None)])"""
    target = SIG.EEMS2[name]
    if target == "EEMSRead":
        for extra in ([], [("MissingVal", -9999)], [("DataType", "Integer")]):
            yield "read", [("READ", [("InFileName", "input.csv"), ("InFieldName", "A")] + extra, None)], 0
            yield "read-renamed", [("READ", [("InFileName", "input.csv"), ("InFieldName", "A")] + extra, "Alpha")], 0
            # a column whose header is a number (a year): as InFieldName it is a NUMBER token; it can only name the result through NewFieldName
            yield "read-numeric-field-renamed", [("READ", [("InFileName", "input.csv"), ("InFieldName", 2050)] + extra, "Y2050")], 0
            # field / result names that are reserved words elsewhere (Python keywords): ordinary names in a command file
            yield "read-keyword-field", [("READ", [("InFileName", "input.csv"), ("InFieldName", "class")] + extra, None)], 0
            yield "read-keyword-renamed", [("READ", [("InFileName", "input.csv"), ("InFieldName", "A")] + extra, "yield")], 0
            # the SAME field read twice (scripts pasted together from fragments), and two reads renamed to one name: the MPilot file obtained
            # by the mapping defines one result twice - the EEMS 2.0 file fares alike
            yield "read-twice", [("READ", [("InFileName", "input.csv"), ("InFieldName", "A")], None),
                                 ("READ", [("InFileName", "input.csv"), ("InFieldName", "A")] + extra, None)], 1
            yield "read-twice-one-name", [("READ", [("InFileName", "input.csv"), ("InFieldName", "A")] + extra, "Alpha"),
                                          ("READ", [("InFileName", "input.csv"), ("InFieldName", "B")], "Alpha")], 1
        return
    fz = SIG.input_fuzz(target)
    ar = D.arity(target)
    reads = [("READ", [("InFileName", "input.csv"), ("InFieldName", "A")], None),
             ("READ", [("InFileName", "input.csv"), ("InFieldName", "B"), ("MissingVal", -9999)], None)]
    pre = list(reads)
    ins = ["A", "B"]
    if fz == "fz":
        pre += [("CVTTOFUZZY", [("InFieldName", "A"), ("TrueThreshold", 10), ("FalseThreshold", 2)], "AF"),
                ("CVTTOFUZZY", [("InFieldName", "B")], "BF")]
        ins = ["AF", "BF"]
    ns = (1,) if ar == "1" else (2,) if ar == "2" else (1, 2, 3)
    for n in ns:
        for params in D.presets_small(target, n):
            slots = SIG.result_slots(target)
            args = []
            chosen = (ins * 2)[:n]
            if len(slots) == 2:
                args += [(slots[0][0], chosen[0]), (slots[1][0], chosen[1])]
            elif slots[0][1]:
                args.append((slots[0][0], list(chosen)))
            else:
                args.append((slots[0][0], chosen[0]))
            args += list(params.items())
            yield "%s n=%d %r" % (name, n, params), pre + [(name, args, "Res")], len(pre)


def _render(cmds):
    prog = []
    for res, cname, args in cmds:
        prog.append((res, cname, [(an, _val(v)) for an, v in args]))
    return G.render(G.items_of(prog))[0]


def _variants(desc, cmds, under_test):
    """(v2-ish commands as (result or None, NAME, args)), reference v3 commands) for every NewFieldName/OutFileName/mixed variant"""
    for with_new in (True, "first", False):
        for with_out in (False, True):
            v2 = []
            for i, (nm, args, new) in enumerate(cmds):
                a = list(args)
                if new is not None and (with_new or i != under_test):
                    if with_new == "first":
                        a.insert(0, ("NewFieldName", new))  # keyword arguments may come in any order
                    else:
                        a.append(("NewFieldName", new))
                if with_out and i == under_test:
                    a.insert(0, ("OutFileName", "out_%d.csv" % i))
                v2.append((nm, a))

            def ref_of(nm, a):
                d = dict(a)
                res = d.get("NewFieldName") or d.get("InFieldName")
                if not isinstance(res, str):
                    res = None  # a list or a number names nothing
                return (res, SIG.EEMS2[nm], [(k, v) for k, v in a if k not in ("NewFieldName", "OutFileName")])

            ref = [ref_of(nm, a) for nm, a in v2]
            defined = all(r[0] is not None for r in ref)
            for mixed in [None] + list(range(len(v2))):
                src = []
                for i, (nm, a) in enumerate(v2):
                    if mixed is not None and i == mixed:
                        if ref[i][0] is None:
                            break
                        src.append(ref[i])  # MPilot-style command in the middle of an EEMS-2 file
                    else:
                        src.append((None, nm, a))
                else:
                    if mixed is not None and mixed == len(v2) - 1 and len(v2) == 1:
                        continue  # a file with only MPilot-style commands is not an EEMS-2 file
                    yield {"with_new": with_new, "with_out": with_out, "mixed": mixed, "defined": defined}, src, ref
                    if mixed is None and defined:
                        # EEMS 2.0 SYNTAX (no result name, NewFieldName / OutFileName) with the MPilot NAME of the command under test: a
                        # half-migrated file; the bookkeeping arguments are dropped all the same
                        half = [(None, ref[i][1] if i == len(v2) - 1 else nm, a) for i, (nm, a) in enumerate(v2)]
                        yield {"with_new": with_new, "with_out": with_out, "mixed": "bare-command-with-mpilot-name", "defined": True}, half, ref
                    if mixed is None and defined:
                        # every command written in result form with its EEMS 2.0 name (no bare command in the file): still EEMS 2.0 commands
                        named = [(r[0], nm, a) for r, (nm, a) in zip(ref, v2)]
                        yield {"with_new": with_new, "with_out": with_out, "mixed": "result-form-eems2-names", "defined": True}, named, ref
                    if mixed is None and defined and with_new is True and not with_out:
                        # MPilot-style commands that themselves carry OutFileName / NewFieldName, inside an EEMS-2 file: they are not
                        # EEMS-2 commands, the reference rewriting leaves them untouched
                        last = ref[-1][0]
                        w = ("W", "EEMSWrite", [("OutFileName", "written.csv"), ("OutFieldNames", [last])])
                        yield {"with_new": True, "with_out": False, "mixed": "mpilot-writer", "defined": True}, src + [w], ref + [w]
                        r = ("R2", "EEMSRead", [("InFileName", "input.csv"), ("InFieldName", "B"), ("NewFieldName", "ignored")])
                        yield {"with_new": True, "with_out": False, "mixed": "mpilot-reader-newfieldname", "defined": True}, [r] + src, [r] + ref


def _load(text, libs, work):
    from mpilot.program import Program
    from mpilot.exceptions import MPilotError

    try:
        return ("ok", Program.from_source(text, libraries=libs, working_dir=work))
    except MPilotError as exc:
        return ("err", type(exc).__name__, str(exc).split("\n")[0])
    except SyntaxError as exc:
        return ("err", "SyntaxError", str(exc))


def _struct(p):
    from mpilot.arguments import Argument

    def plain(v):
        if isinstance(v, Argument):
            v = v.value
        if isinstance(v, list):
            return [plain(x) for x in v]
        return v

    return [(n, type(c).__name__, type(c).__module__, [(a.name, plain(a.value)) for a in c.arguments]) for n, c in p.commands.items()]


def _same_arr(a, b):
    if isinstance(a, numpy.ndarray) and isinstance(b, numpy.ndarray):
        return a.shape == b.shape and bool((numpy.ma.getmaskarray(a) == numpy.ma.getmaskarray(b)).all()) and \
            bool(numpy.all(numpy.ma.filled(a, 0) == numpy.ma.filled(b, 0)))
    return type(a) == type(b) and a == b


def _run_table():
    from mpilot.program import Program
    from mpilot import utils

    viols = []
    live = dict(utils.EEMS_COMMANDS)
    n = 0
    if set(live) != set(SIG.EEMS2):
        viols.append(V("C16:table:key-set-differs", "live table keys differ from the 25 EEMS 2.0 names: missing %r extra %r" % (
            sorted(set(SIG.EEMS2) - set(live)), sorted(set(live) - set(SIG.EEMS2)))))
    for libs, lname in ((CSV, "csv"), (NETCDF, "netcdf")):
        lib = Program(libraries=libs).command_library
        for name in sorted(SIG.EEMS2):
            n += 1
            tgt = live.get(name)
            if tgt is None or tgt not in lib:
                viols.append(V("C16:table:target-missing:" + name, "EEMS 2.0 name %s maps to %r which is not a command of the %s library set" % (name, tgt, lname), name=name))
            elif SIG.EEMS2[name] is not None and tgt != SIG.EEMS2[name]:
                viols.append(V("C16:table:wrong-target:" + name, "EEMS 2.0 name %s maps to %s, its meaning is %s" % (name, tgt, SIG.EEMS2[name]), name=name))
    return {"evals": n, "nontrivial": n, "judged": n, "viols": viols, "outcomes": {"table:" + ("ok" if not viols else "bad"): 1},
            "sample": {"table_entries_checked": n}}


def run(case):
    case = tuple(case)
    if case[0] == "table":
        return _run_table()
    _, name, tier = case
    work = snapshot.scratch_dir("c16_")
    with open(os.path.join(work, "input.csv"), "w") as f:
        f.write("A,B,2050,class\n10,5,1.5,1\n8,-9999,2,2\n7,3,-9999,1\n5,10,4,3\n2,8,0.25,2\n")
    viols, outcomes = [], {}
    evals = judged = unspec = 0
    sample = None
    seen = set()
    try:
        for desc, cmds, under in _models(name):
            for meta, src, ref in _variants(desc, cmds, under):
                t2 = _render(src)
                t3 = _render(ref) if meta["defined"] else None
                for libs, lname in ((CSV, "csv"), (NETCDF, "netcdf")):
                    evals += 1
                    seen.add(hash((t2, lname)))
                    tag = dict(meta, eems2_text=t2, reference_mpilot_text=t3, libraries=lname, name=name)
                    sample = tag
                    a = _load(t2, libs, work)
                    if not meta["defined"]:
                        unspec += 1
                        outcomes["undefined-result-name:" + a[0]] = outcomes.get("undefined-result-name:" + a[0], 0) + 1
                        continue
                    b = _load(t3, libs, work)
                    judged += 1
                    where = "mixed" if meta["mixed"] is not None else "pure"
                    kname = name
                    if isinstance(meta["mixed"], str):
                        kname, where = "mixed-file", meta["mixed"]
                    if a[0] != b[0] or (a[0] == "err" and a[1] != b[1]):
                        viols.append(V("C16:%s:load-outcome-differs:%s" % (kname, where), "EEMS-2 text -> %r, reference MPilot text -> %r; %r vs %r" % (
                            a[:3] if a[0] == "err" else "loaded", b[:3] if b[0] == "err" else "loaded", t2, t3), **tag))
                        continue
                    if a[0] == "err":
                        outcomes["both-fail:" + a[1]] = outcomes.get("both-fail:" + a[1], 0) + 1
                        continue
                    sa, sb = _struct(a[1]), _struct(b[1])
                    if sa != sb:
                        viols.append(V("C16:%s:structure-differs:%s" % (kname, where), "programs differ: %r vs %r; text %r" % (sa, sb, t2), **tag))
                        continue
                    if lname == "csv":
                        ra = rb = None
                        with contextlib.redirect_stdout(io.StringIO()), numpy.errstate(all="ignore"):
                            try:
                                a[1].run()
                                ra = "ok"
                            except Exception as exc:
                                ra = type(exc).__name__
                            try:
                                b[1].run()
                                rb = "ok"
                            except Exception as exc:
                                rb = type(exc).__name__
                        if ra != rb:
                            viols.append(V("C16:%s:run-outcome-differs" % name, "run: %s vs %s for %r" % (ra, rb, t2), **tag))
                            continue
                        if ra == "ok":
                            for rn in a[1].commands:
                                if not _same_arr(a[1].commands[rn].result, b[1].commands[rn].result):
                                    viols.append(V("C16:%s:results-differ" % name, "result %s differs for %r" % (rn, t2), **tag))
                                    break
                        outcomes["equal:run-" + ra] = outcomes.get("equal:run-" + ra, 0) + 1
                    else:
                        outcomes["equal:structure"] = outcomes.get("equal:structure", 0) + 1
                if len(viols) > 40:
                    del viols[40:]
    finally:
        import shutil

        shutil.rmtree(work, ignore_errors=True)
    return {"evals": max(evals, 1), "nontrivial": len(seen), "judged": judged, "unspecified": unspec, "viols": viols, "outcomes": outcomes, "sample": sample}
