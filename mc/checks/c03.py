"""C03 — missing data stays missing and never leaks into valid results.

Every data command (31) x arities 1..3 x shapes {(3,), (2,2)} x EVERY placement of missing cells over all inputs x element type
{float, int} x presets; for every case with >=1 missing cell EVERY payload of the payload alphabet hidden beneath the missing
cells (metamorphic: results at non-missing cells must be bit-identical to the payload-0 run).
"""
import itertools
from fractions import Fraction as F

import numpy

from ..core import V
from .. import numdrv as D
from ..ref import eems as REF
from ..ref import sig as SIG

ID = "C03"
LEVEL = "exploration"
CHUNK = 1
RULE = ("cases = (command, n inputs, shape, dtype, preset); each enumerates all 2^(cells*n) missing placements and, when >=1 cell is "
        "missing, all payloads; non-trivial = distinct (command, preset, dtype, placement, payload) with >=1 missing cell")
ASSUMPTIONS = ["cell values fixed per position (distinct, so statistics are defined); payload alphabet {0,1,-9999,1e30,nan}",
               "overflow at the extreme payloads cannot occur at non-missing cells unless the payload leaks"]
PAYLOADS = [0, 1, -9999, 1e30, float("nan")]
INT_PAYLOADS = [0, 1, -9999, 2 ** 40]
VAL_NF = [F(-1), F(1, 2), F(2), F(5), F(0), F(3, 2), F(-2), F(1), F(1, 4), F(2), F(-1), F(5)]
VAL_INT = [F(-1), F(0), F(2), F(5), F(1), F(-2), F(2), F(0), F(5), F(1), F(-1), F(2)]
VAL_UINT = [F(3), F(0), F(2), F(5), F(1), F(7), F(2), F(0), F(5), F(1), F(4), F(2)]
VAL_FZ = [F(-1), F(-1, 4), F(1, 2), F(1), F(0), F(3, 4), F(-1, 2), F(1, 4), F(1), F(-1), F(1, 2), F(0)]


def BOUND(tier):
    return ("shapes (3,) for n<=3 and (2,2) for n<=2; all missing placements; 5 payloads (4 for int)" if tier == "quick" else
            "shapes (3,) and (2,2) and (1,3,1) for n<=3; all missing placements (up to 4096); 5 payloads")


def cases(tier):
    yield ("readers", "csv")
    yield ("readers", "netcdf")
    for cmd in SIG.DATA_COMMANDS:
        fz = SIG.input_fuzz(cmd)
        dts0 = ("float",) if fz == "fz" else ("float", "int")
        for n in D.arities(cmd):
            dts = dts0 + (("float32",) if n <= 2 else ())  # single-precision data (readers and plug-ins may deliver it)
            if fz != "fz" and n <= 2:
                dts = dts + ("uint",)  # unsigned data: what the NetCDF reader delivers for DataType = "Positive Integer"
            shapes = [(3,)] + ([(2, 2)] if (n <= 2 or tier == "thorough") else []) + ([(1, 3, 1)] if tier == "thorough" else [])
            for shape in shapes:
                for dt in dts:
                    for pi in range(len(D.presets_small(cmd, n))):
                        size = int(numpy.prod(shape))
                        nbits = size * n
                        if nbits > 8:
                            for hi in range(1 << (nbits - 8)):
                                yield (cmd, n, shape, dt, pi, hi)
                        else:
                            yield (cmd, n, shape, dt, pi, -1)


def _run_readers(case):
    """the two readers create the missing cells: cells missing in the file (CSV: equal to MissingVal; NetCDF: masked by _FillValue) must be
    missing in the result under every combination of the optional read parameters, and the number stored beneath them (the fill
    value) must not influence any other cell"""
    import os

    from .. import snapshot
    from . import c17, c18

    _, lib = case
    work = snapshot.scratch_dir("c03r_")
    viols, outcomes = [], {}
    evals = judged = nontriv = 0
    sample = None
    try:
        if lib == "netcdf":
            grid = (2, 2)
            vals = [0.5, -0.25, 1.0, -1.0]
            for m in range(16):
                miss = [bool(m >> i & 1) for i in range(4)]
                per_fill = {}
                for fillv in (-9999.0, 12345.0):
                    c18._make_template(os.path.join(work, "in.nc"), grid, {"v": ("f8", vals, miss if m else None, fillv)})
                    for dtype in c18.DTYPES:
                        for mv in (None, 12345, -9999, vals[0], 777):
                            if mv == fillv:
                                continue
                            res = c18._eems_read(work, "in.nc", "v", dtype, mv)
                            evals += 1
                            tag = {"reader": "netcdf", "file_missing": miss, "fill_value": fillv, "DataType": dtype, "MissingValue": mv}
                            sample = tag
                            if res[0] != "ok":
                                outcomes["netcdf:err"] = outcomes.get("netcdf:err", 0) + 1
                                continue
                            judged += 1
                            nontriv += 1 if m else 0
                            got = numpy.ma.getmaskarray(res[1]).ravel().tolist()
                            lost = [i for i in range(4) if miss[i] and not got[i]]
                            if lost:
                                viols.append(V("C03:netcdf.EEMSRead:missing-lost", "cell %d is missing in the file but present (%r) in the result (DataType %r, MissingValue %r)" % (
                                    lost[0], numpy.ma.getdata(res[1]).ravel()[lost[0]], dtype, mv), **tag))
                            key = (dtype, mv)
                            cells = [None if g else float(x) for g, x in zip(got, numpy.ma.getdata(res[1]).ravel().tolist())]
                            if key in per_fill and per_fill[key] != cells and mv not in (-9999, 12345):
                                viols.append(V("C03:netcdf.EEMSRead:payload-leak", "result depends on the fill value stored beneath missing cells: %r vs %r" % (per_fill[key], cells), **tag))
                            per_fill.setdefault(key, cells)
                            outcomes["netcdf:ok"] = outcomes.get("netcdf:ok", 0) + 1
            # files WITHOUT a _FillValue whose missing cells hold the caller's marker (MissingValue = -9999 / 7.5, outside and inside the allowed range
            # of the DataType): either the read is refused, or every cell holding the marker is missing in the result
            for marker in (-9999.0, 7.5, 0.5):
                for m in range(1, 16):
                    miss = [bool(m >> i & 1) for i in range(4)]
                    stored = [marker if miss[i] else vals[i] for i in range(4)]
                    if any((not miss[i]) and vals[i] == marker for i in range(4)):
                        continue
                    c18._make_template(os.path.join(work, "in.nc"), grid, {"v": ("f8", stored, None, None)})
                    for dtype in c18.DTYPES:
                        if dtype in ("Integer", "Positive Integer") and marker != int(marker):
                            continue  # (the marker is compared with the CONVERTED data: a fractional marker on an integer read is C18's business)
                        res = c18._eems_read(work, "in.nc", "v", dtype, marker)
                        evals += 1
                        tag = {"reader": "netcdf", "cells_holding_the_marker": miss, "fill_value": None, "DataType": dtype, "MissingValue": marker}
                        sample = tag
                        if res[0] != "ok":
                            outcomes["netcdf:marker:err"] = outcomes.get("netcdf:marker:err", 0) + 1
                            continue
                        judged += 1
                        nontriv += 1
                        got = numpy.ma.getmaskarray(res[1]).ravel().tolist()
                        lost = [i for i in range(4) if miss[i] and not got[i]]
                        if lost:
                            viols.append(V("C03:netcdf.EEMSRead:missing-lost:marker-without-fill-value", "cell %d holds MissingValue %r in the file but is present (%r) in the result (DataType %r)" % (
                                lost[0], marker, numpy.ma.getdata(res[1]).ravel()[lost[0]], dtype), **tag))
                        outcomes["netcdf:marker:ok"] = outcomes.get("netcdf:marker:ok", 0) + 1
            # named LARGE sizes (beyond 2^16 and beyond 2^20 cells, 1-D and 2-D): the file's missing cells, cell for cell
            for grid in ((257, 256), (1100, 1000), (1, 70001)):
                size = grid[0] * grid[1]
                idx = numpy.arange(size)
                big = ((idx * 7919) % 201 - 100) / 100.0
                bmiss = (idx % 13 == 5) | (idx > size - 40)
                c18._make_template(os.path.join(work, "big.nc"), grid, {"v": ("f8", big, bmiss, -9999.0)})
                for dtype in (None, "Float", "Fuzzy"):
                    res = c18._eems_read(work, "big.nc", "v", dtype, None)
                    evals += 1
                    judged += 1
                    nontriv += 1
                    tag = {"reader": "netcdf", "grid": list(grid), "DataType": dtype, "file_missing": "every 13th cell and the last 39"}
                    sample = tag
                    if res[0] != "ok":
                        viols.append(V("C03:netcdf.EEMSRead:large-grid-raised", "reading a %r grid raised %r" % (grid, res[1]), **tag))
                        continue
                    got = numpy.ma.getmaskarray(res[1]).ravel()
                    if got.shape != bmiss.shape or (got != bmiss).any():
                        lost = int((bmiss & ~got).sum()) if got.shape == bmiss.shape else -1
                        viols.append(V("C03:netcdf.EEMSRead:%s:large-grid" % ("missing-lost" if lost else "missing-extra"),
                                       "%r grid: %d of %d cells missing in the file are present in the result" % (grid, lost, int(bmiss.sum())), **tag))
                    outcomes["netcdf:large:ok"] = outcomes.get("netcdf:large:ok", 0) + 1
        else:
            col = [1.5, -9999.0, 0.25, 5.0]
            for m in range(16):
                cells = [(-9999.0 if m >> i & 1 else col[i]) if i != 1 or True else col[i] for i in range(4)]
                cells = [(-9999.0 if m >> i & 1 else (col[i] if col[i] != -9999.0 else 2.0)) for i in range(4)]
                text = c17._text(["A", "B"], [[a, 7.0] for a in cells])
                with open(os.path.join(work, "t.csv"), "w", newline="") as f:
                    f.write(text)
                for dt in (None, "Float", "Integer") if all(float(c) == int(c) for c in cells) else (None, "Float"):
                    res = c17._read(work, "t.csv", "A", -9999, dt)
                    evals += 1
                    tag = {"reader": "csv", "file": text, "DataType": dt}
                    sample = tag
                    if res[0] != "ok":
                        continue
                    judged += 1
                    nontriv += 1 if m else 0
                    got = numpy.ma.getmaskarray(res[1]).tolist()
                    want = [bool(m >> i & 1) for i in range(4)]
                    if got != want:
                        viols.append(V("C03:csv.EEMSRead:%s" % ("missing-lost" if any(w and not g for w, g in zip(want, got)) else "missing-extra"),
                                       "missing cells %r, file has MissingVal at %r" % (got, want), **tag))
                    outcomes["csv:ok"] = outcomes.get("csv:ok", 0) + 1
    finally:
        import shutil
        shutil.rmtree(work, ignore_errors=True)
    return {"evals": max(evals, 1), "nontrivial": nontriv, "judged": judged, "viols": viols[:20], "outcomes": outcomes, "sample": sample}


def _vals(cmd, dt, n, size):
    base = VAL_FZ if SIG.input_fuzz(cmd) == "fz" else (VAL_INT if dt == "int" else VAL_UINT if dt == "uint" else VAL_NF)
    vals = [[base[(i * size + j) % len(base)] for j in range(size)] for i in range(n)]
    if SIG.input_fuzz(cmd) == "fz" and size >= 2:
        for i in range(n):
            vals[i][0] = F(-1)  # one cell in which EVERY input is fully false (the 0/0 corner of the exclusive-or formula): defined, not missing
    return vals


def run(case):
    if case[0] == "readers":
        return _run_readers(tuple(case))
    cmd, n, shape, dt, pi, hi = case[0], case[1], tuple(case[2]), case[3], case[4], case[5]
    size = int(numpy.prod(shape))
    params = D.presets_small(cmd, n)[pi]
    vals = _vals(cmd, dt, n, size)
    nbits = size * n
    lowbits = min(nbits, 8)
    viols = []
    counters = {"judged": 0, "unspecified": 0}
    outcomes = {}
    evals = nontriv = 0
    sample = None
    payloads = INT_PAYLOADS if dt == "int" else [0, 250, 999999] if dt == "uint" else (PAYLOADS if dt == "float" else [0, 1, -9999, 1e30])
    for lo in range(1 << lowbits):
        bits = lo | ((hi << 8) if hi >= 0 else 0)
        cols = [[None if bits >> (i * size + j) & 1 else vals[i][j] for j in range(size)] for i in range(n)]
        anymiss = bits != 0
        ref = REF.apply(cmd, cols, params)
        base_cells = None
        for pl in (payloads if anymiss else [0]):
            # inputs without missing cells also as plain numpy.ndarray objects (next to masked inputs where there are any)
            forms = (("auto", "auto+ndarray") if any(all(x is not None for x in c) for c in cols) else ("auto",)) if anymiss else ("nomask", "false", "ndarray")
            for form in forms:
                arrays = [D.mk_array(c, shape=shape, dtype=dt, maskform=form, payload=pl) for c in cols]
                res = D.execute(cmd, arrays, params)
                evals += 1
                tag = {"cmd": cmd, "params": params, "inputs": [[str(x) for x in c] for c in cols], "shape": list(shape), "dtype": dt,
                       "payload": repr(pl), "complete_inputs_given_as": "numpy.ndarray" if "ndarray" in form else "MaskedArray"}
                if anymiss:
                    nontriv += 1
                sample = tag
                if res[0] == "err":
                    if "ndarray" in form:
                        # a command that cannot take a plain ndarray at all fails loudly: no statement about missing cells is involved
                        k = "%s:raised-on-plain-ndarray" % cmd
                        outcomes[k] = outcomes.get(k, 0) + 1
                        continue
                    if ref[0] in ("ok",):
                        viols.append(V("C03:%s:raised:%s" % (cmd, D.error_name(res[1])), "%s raised %r with missing placement %s payload %r" % (cmd, res[1], tag["inputs"], pl), **tag))
                    k = "%s:raised" % cmd
                    outcomes[k] = outcomes.get(k, 0) + 1
                    continue
                r = res[1]
                if not isinstance(r, numpy.ndarray):
                    viols.append(V("C03:%s:not-array" % cmd, "result is %r" % type(r).__name__, **tag))
                    continue
                # the missing cells of the INPUTS (results of other commands) must be exactly what they were
                for i_, (a_, c_) in enumerate(zip(arrays, cols)):
                    now = numpy.ma.getmaskarray(a_).ravel().tolist()
                    if now != [x is None for x in c_]:
                        viols.append(V("C03:%s:input-missing-changed" % cmd, "%s changed the missing cells of its input %d from %r to %r" % (
                            cmd, i_, [x is None for x in c_], now), **tag))
                        break
                rshape, cells, is_ma = D.result_cells(r)
                if len(cells) != size:
                    viols.append(V("C03:%s:size-changed" % cmd, "result has %d cells for %d input cells" % (len(cells), size), **tag))
                    continue
                in_missing = [any(c[j] is None for c in cols) for j in range(size)]
                counters["judged"] += size
                # (iv)/(i): missing inputs => missing result
                for j in range(size):
                    if in_missing[j] and cells[j] is not None:
                        viols.append(V("C03:%s:%s" % (cmd, "mask-dropped" if not is_ma else "missing-lost"),
                                       "%s: cell %d has a missing input but the result there is %r (payload %r)" % (cmd, j, cells[j], pl), **tag))
                        break
                # (ii): result missing => some input missing or operation undefined there (reference)
                if ref[0] == "ok":
                    for j in range(size):
                        if cells[j] is None and ref[1][j] is not None:
                            viols.append(V("C03:%s:missing-extra" % cmd, "%s: cell %d is missing in the result but defined by the reference (%s)" % (cmd, j, ref[1][j]), **tag))
                            break
                # (iii): payload independence, bit for bit
                if anymiss:
                    if base_cells is None:
                        base_cells = (pl, cells)
                    else:
                        for j in range(size):
                            a, b = base_cells[1][j], cells[j]
                            if in_missing[j]:
                                continue
                            same = (a is None and b is None) or (a is not None and b is not None and
                                                                 (a == b or (a != a and b != b)) and numpy.float64(a).tobytes() == numpy.float64(b).tobytes())
                            if not same:
                                viols.append(V("C03:%s:payload-leak" % cmd, "%s: cell %d is %r with payload %r but %r with payload %r" % (
                                    cmd, j, a, base_cells[0], b, pl), **tag))
                                break
                    # non-finite values at valid cells with finite valid inputs = payload leaking through arithmetic
                    for j in range(size):
                        if not in_missing[j] and isinstance(cells[j], float) and (cells[j] != cells[j] or abs(cells[j]) == float("inf")):
                            viols.append(V("C03:%s:nonfinite-at-valid-cell" % cmd, "%s: cell %d is %r (payload %r)" % (cmd, j, cells[j], pl), **tag))
                            break
                k = "%s:%s" % (cmd, "ok")
                outcomes[k] = outcomes.get(k, 0) + 1
        if len(viols) > 100:
            viols = viols[:100]
    return {"evals": evals, "nontrivial": nontriv, "judged": counters["judged"], "viols": viols, "outcomes": outcomes, "sample": sample}
