"""C01 — every command executes exactly once, fed by its finished dependencies.

Space: all labelled DAGs on n<=4 commands (thorough: n=5) x every assignment of a reference kind
(direct parameter / list / nested list) to every edge, built through add_command and through
from_source; then an explicit-state search (BFS, real transition function) over histories of
run() / result / Command.run() events from every DAG on <=3 commands.
Oracle: reference evaluator mc/ref/evalgraph.py.
"""
import itertools

from ..core import V, bfs
from ..ref import evalgraph as G

ID = "C01"
LEVEL = "model_checking"
CHUNK = 1
LIB = ("mc.vlib.graph",)
RULE = ("cases = labelled DAG masks x per-edge reference kinds (d/l/n) x {API, source} build, plus BFS over "
        "histories of run()/result/Command.run() events; non-trivial = distinct (graph, kinds, build mode) programs "
        "with >=1 command plus distinct canonical history states")
ASSUMPTIONS = ["execution observed by a verif-side command class (mc/vlib/graph.py) whose execute() logs entry/exit; the built-in commands are observed through a counting wrapper put around their execute() in the worker process",
               "commands that raise are outside this property"]


def BOUND(tier):
    return ("n<=4 all edge-kind assignments, both build modes; multi-references (9 kinds incl. dd, dl, ll, ddl) on all DAGs with <=3 edges (n<=3) / <=2 edges (n=4); histories depth 3 from all DAGs n<=3"
            if tier == "quick" else
            "n<=4 all edge-kind assignments both build modes and both namings; n=5 one kind per consumer node x all DAGs; "
            "n=5 per-edge kinds for DAGs with <=4 edges; histories depth 4 from all DAGs n<=3, depth 3 from n=4 (direct edges)")


def _mask_edges(n, mask):
    pairs = G.all_pairs(n)
    return tuple(pairs[b] for b in range(len(pairs)) if mask >> b & 1)


def cases(tier):
    from ..ref import sig as SIG
    from .. import numdrv as D

    for cmd in SIG.DATA_COMMANDS:
        for n in D.arities(cmd):
            yield ("real", cmd, n)
    for n in (1, 2, 3):
        yield ("quiet", n)
    for n in (1, 2, 3):
        yield ("dropped", n)
    for n in (2, 3):
        yield ("cross", n)
    yield ("greedy",)
    for n in (2, 3):
        yield ("replace", n)
    # (kind, n, lo, hi, naming, mode)
    namings = (0,) if tier == "quick" else (0, 1)
    for n in (1, 2, 3, 4):
        total = 1 << (n * (n - 1))
        step = max(1, total // 512)
        for nm in (namings + ((2,) if n <= 3 and 2 not in namings else ())):  # result names that differ in case only, n <= 3
            for lo in range(0, total, step):
                yield ("graphs", n, lo, min(total, lo + step), nm, "edge")
    # multi-references: one consumer naming the same producer several times (two direct slots, slot + list, twice in a list, ...)
    for n in (2, 3, 4):
        total = 1 << (n * (n - 1))
        step = max(1, total // 256)
        for lo in range(0, total, step):
            yield ("graphs", n, lo, min(total, lo + step), 0, "multi")
    # histories
    for n in (1, 2, 3):
        total = 1 << (n * (n - 1))
        for lo in range(total):
            yield ("hist", n, lo, lo + 1, 0, 3 if tier == "quick" else 4)
    if tier == "thorough":
        total = 1 << 12
        for lo in range(0, total, 16):
            yield ("histd", 4, lo, lo + 16, 0, 3)
        total = 1 << 20
        step = 1 << 9
        for lo in range(0, total, step):
            yield ("graphs", 5, lo, lo + step, 0, "node")
        for lo in range(0, total, step):
            yield ("graphs", 5, lo, lo + step, 0, "edge4")


def _program(n, edges, names, mode, spec=None):
    from mpilot.program import Program
    from ..vlib import graph as VL

    VL.reset()
    if mode == "src":
        return Program.from_source(G.render(n, edges, names), libraries=LIB)
    p = Program(libraries=LIB)
    for i in range(n):
        # spec: argument dictionaries kept by the caller and used for SEVERAL programs (a model kept as data and instantiated twice)
        args = spec[i] if spec is not None else dict(G.slots_of(n, edges, i, names))
        p.add_command(VL.Node, names[i], args)
    return p


def _counts(VL, names):
    c = {nm: 0 for nm in names}
    for ev, nm in VL.LOG:
        if ev == "enter":
            c[nm] = c.get(nm, 0) + 1
    return c


def _check_final(n, edges, names, p, mode, tag):
    """after a completed run(): every command executed exactly once with the reference value"""
    from ..vlib import graph as VL

    viols = []
    cnt = _counts(VL, names)
    memo = {}
    for i in range(n):
        nm = names[i]
        if cnt[nm] == 0:
            viols.append(V("C01:run:not-executed:" + mode, "command %s never executed by run()" % nm, tag=tag))
        elif cnt[nm] > 1:
            viols.append(V("C01:run:executed-twice:" + mode, "command %s executed %d times" % (nm, cnt[nm]), tag=tag))
        cmd = p.commands[nm]
        if not cmd.is_finished:
            viols.append(V("C01:run:not-finished:" + mode, "command %s not finished after run()" % nm, tag=tag))
            continue
        want = G.value(n, edges, i, names, memo)
        if cmd._result != want:
            viols.append(V("C01:run:wrong-value:" + mode, "result of %s is %r, reference %r" % (nm, cmd._result, want), tag=tag))
    for consumer, producer, fin, rid in VL.FED:
        if not fin:
            viols.append(V("C01:fed-unfinished:" + mode, "%s read %s before it was finished" % (consumer, producer), tag=tag))
        elif id(p.commands[producer]._result) != rid:
            viols.append(V("C01:fed-other-object:" + mode, "%s was fed an object that is not the final result of %s" % (consumer, producer), tag=tag))
    return viols


def _one_program(n, edges, names, mode):
    from ..vlib import graph as VL

    tag = {"n": n, "edges": edges, "names": names[:n], "mode": mode, "source": G.render(n, edges, names)}
    try:
        p = _program(n, edges, names, mode)
        p.run()
    except Exception as exc:  # acyclic well-formed programs must run
        return [V("C01:run:raised:%s:%s" % (mode, type(exc).__name__), "acyclic program raised %r" % (exc,), tag=tag)], "raised"
    viols = _check_final(n, edges, names, p, mode, tag)
    ids = {nm: id(p.commands[nm].result) for nm in names[:n]}
    before = len(VL.LOG)
    # re-reading and re-running execute nothing further and return the identical objects
    try:
        p.run()
        for nm in names[:n]:
            if id(p.commands[nm].result) != ids[nm]:
                viols.append(V("C01:reread:other-object:" + mode, "second read of %s returned a different object" % nm, tag=tag))
            p.commands[nm].run()
    except Exception as exc:
        viols.append(V("C01:rerun:raised:" + mode, "re-run raised %r" % (exc,), tag=tag))
    if len(VL.LOG) != before:
        viols.append(V("C01:rerun:executed-again:" + mode, "re-run/re-read executed %r" % (VL.LOG[before:],), tag=tag))
    order = ">".join(x for e, x in VL.LOG if e == "enter")
    if mode == "api" and edges and not viols:
        # references given as command OBJECTS (the API accepts already-clean values): commands are added dependencies-first
        try:
            from mpilot.program import Program

            VL.reset()
            po = Program(libraries=LIB)
            done = []
            remaining = list(range(n))
            while remaining:
                for i in list(remaining):
                    if all(p_ in done for c_, p_, _ in edges if c_ == i):
                        def obj(raw):
                            return [obj(x) for x in raw] if isinstance(raw, list) else po.commands[raw]
                        po.add_command(VL.Node, names[i], dict((s_, obj(raw)) for s_, raw in G.slots_of(n, edges, i, names)))
                        done.append(i)
                        remaining.remove(i)
            po.run()
            vo = _check_final(n, edges, names, po, "api", dict(tag, references_given_as_command_objects=True))
            for v in vo:
                v["key"] = v["key"].replace("C01:", "C01:object-references:", 1)
            viols += vo
        except Exception as exc:
            viols.append(V("C01:object-references:raised:%s" % type(exc).__name__, "program built with command objects as references raised %r" % (exc,), tag=tag))
    if mode == "api" and any(k != "d" for _, _, k in edges) and not viols:
        # the same argument objects (lists!) instantiate two programs; the second must be fed by ITS OWN commands
        spec = [dict(G.slots_of(n, edges, i, names)) for i in range(n)]
        try:
            p1 = _program(n, edges, names, "api", spec)
            p1.run()
            p2 = _program(n, edges, names, "api", spec)
            p2.run()
            v2 = _check_final(n, edges, names, p2, "api", dict(tag, second_program_from_same_argument_objects=True))
            for v in v2:
                v["key"] = v["key"].replace("C01:", "C01:shared-arguments:", 1)
            viols += v2
        except Exception as exc:
            viols.append(V("C01:shared-arguments:raised:%s" % type(exc).__name__, "second program built from the same argument objects raised %r" % (exc,), tag=tag))
    if mode == "api" and edges and not viols:
        # the same Argument OBJECTS (add_command keeps an Argument it is given) instantiate two programs - a model parsed once and re-added
        # to a second program: the second program must be fed by ITS OWN commands
        from mpilot.arguments import Argument

        spec = [dict((s_, Argument(s_, raw)) for s_, raw in G.slots_of(n, edges, i, names)) for i in range(n)]
        try:
            p1 = _program(n, edges, names, "api", spec)
            p1.run()
            p2 = _program(n, edges, names, "api", spec)
            p2.run()
            v2 = _check_final(n, edges, names, p2, "api", dict(tag, second_program_from_same_Argument_objects=True))
            for v in v2:
                v["key"] = v["key"].replace("C01:", "C01:shared-Argument-objects:", 1)
            viols += v2
        except Exception as exc:
            viols.append(V("C01:shared-Argument-objects:raised:%s" % type(exc).__name__, "second program built from the same Argument objects raised %r" % (exc,), tag=tag))
    return viols, "ok order=" + order


MULTI_KINDS = ("d", "l", "n", "dd", "dl", "ll", "dn", "nn", "ddl")


def _kinds_iter(n, es, how):
    if how == "multi":
        if not es or len(es) > (3 if n <= 3 else 2):
            return ()
        return (a for a in G.kind_assignments(es, MULTI_KINDS) if any(len(k) > 1 for _, _, k in a))
    if how == "edge" or (how == "edge4" and len(es) <= 4):
        return G.kind_assignments(es)
    if how == "edge4":
        return ()
    # one kind per consumer node
    consumers = sorted({c for c, p in es})

    def gen():
        for ks in itertools.product("dln", repeat=len(consumers)):
            km = dict(zip(consumers, ks))
            yield tuple((c, p, km[c]) for c, p in es)

    return gen()


def _run_graphs(case):
    _, n, lo, hi, nm, how = case
    names = G.NAMINGS[nm]
    viols, evals, nontriv = [], 0, 0
    outcomes = {}
    dags = 0
    sample = None
    for mask in range(lo, hi):
        es = _mask_edges(n, mask)
        if G.has_cycle(n, [(c, p, "d") for c, p in es]):
            continue
        dags += 1
        for edges in _kinds_iter(n, es, how):
            modes = ("api", "src") if n <= 4 else (("api",) if (mask + len(edges)) % 2 else ("src",))
            for mode in modes:
                v, oc = _one_program(n, edges, names, mode)
                viols += v
                evals += 1
                nontriv += 1
                key = "%s:%s:n%d" % (oc, mode, n)
                outcomes[key] = outcomes.get(key, 0) + 1
                sample = {"program": G.render(n, edges, names), "build": mode, "observed": oc}
    return {"evals": evals, "nontrivial": nontriv, "judged": evals, "viols": viols, "outcomes": outcomes,
            "extra": {"dags_n%d" % n: dags}, "sample": sample}


def _run_hist(case):
    from ..vlib import graph as VL

    kind, n, lo, hi, nm, depth = case
    names = G.NAMINGS[nm]
    tot = {"evals": 0, "nontrivial": 0, "judged": 0, "viols": [], "outcomes": {}, "states": 0, "transitions": 0, "extra": {}}
    for mask in range(lo, hi):
        es = _mask_edges(n, mask)
        if G.has_cycle(n, [(c, p, "d") for c, p in es]):
            continue
        assigns = G.kind_assignments(es) if kind == "hist" else [tuple((c, p, "d") for c, p in es)]
        for edges in assigns:
            # ("extend", i): a new command consuming command i is ADDED to the program (the program is edited between runs)
            events = [("run",)] + [("result", i) for i in range(n)] + [("cmdrun", i) for i in range(n)] + [("extend", i) for i in range(n)]
            memo = {}
            ref = [G.value(n, edges, i, names, memo) for i in range(n)]
            counter = {"n": 0}

            def build(hist):
                p = _program(n, edges, names, "api")
                returned = []
                ext = []
                for ev in hist:
                    if ev[0] == "run":
                        p.run()
                        returned.append(None)
                    elif ev[0] == "extend":
                        xn = "x%d" % len(ext)
                        p.add_command(VL.Node, xn, {"D0": names[ev[1]]})
                        ext.append((xn, ev[1]))
                        returned.append(None)
                    elif ev[0] == "result":
                        returned.append(p.commands[names[ev[1]]].result)
                    else:
                        p.commands[names[ev[1]]].run()
                        returned.append(None)
                counter["n"] += 1
                return (p, returned, list(VL.LOG), list(VL.FED), ext)

            def canon(st):
                p, returned, log, fed, ext = st
                cnt = {}
                for e, x in log:
                    if e == "enter":
                        cnt[x] = cnt.get(x, 0) + 1
                return (tuple((p.commands[names[i]].is_finished, cnt.get(names[i], 0)) for i in range(n)),
                        tuple(sorted((i, p.commands[xn].is_finished, cnt.get(xn, 0)) for xn, i in ext)))

            def invariant(hist, st):
                p, returned, log, fed, ext = st
                out = []
                tag = {"n": n, "edges": edges, "names": names[:n], "history": hist}
                cnt = {}
                for e, x in log:
                    if e == "enter":
                        cnt[x] = cnt.get(x, 0) + 1
                must = set()
                must_ext = set()
                seen_ext = 0
                for ev in hist:
                    if ev[0] == "extend":
                        seen_ext += 1
                    elif ev[0] == "run":
                        must |= set(range(n))
                        must_ext |= set(range(seen_ext))  # a run() executes every command present at that time
                    else:
                        must |= G.closure(n, edges, ev[1])
                for k, (xn, i) in enumerate(ext):
                    c = cnt.get(xn, 0)
                    cmd = p.commands[xn]
                    if c > 1:
                        out.append(V("C01:hist:executed-twice", "added command %s executed %d times after history %r" % (xn, c, hist), tag=tag))
                    if k in must_ext and (c == 0 or not cmd.is_finished):
                        out.append(V("C01:hist:added-command-not-executed", "command %s added after earlier events was not executed by the later run(); history %r" % (xn, hist), tag=tag))
                    if cmd.is_finished and cmd._result != (xn, (("D0", ref[i]),)):
                        out.append(V("C01:hist:wrong-value", "added command %s has %r, reference %r" % (xn, cmd._result, (xn, (("D0", ref[i]),))), tag=tag))
                for i in range(n):
                    nmi = names[i]
                    c = cnt.get(nmi, 0)
                    cmd = p.commands[nmi]
                    if c > 1:
                        out.append(V("C01:hist:executed-twice", "%s executed %d times after history %r" % (nmi, c, hist), tag=tag))
                    if i in must and c == 0:
                        out.append(V("C01:hist:not-executed", "%s not executed after history %r" % (nmi, hist), tag=tag))
                    if i in must and not cmd.is_finished:
                        out.append(V("C01:hist:not-finished", "%s not finished after history %r" % (nmi, hist), tag=tag))
                    if cmd.is_finished and cmd._result != ref[i]:
                        out.append(V("C01:hist:wrong-value", "%s has %r, reference %r after %r" % (nmi, cmd._result, ref[i], hist), tag=tag))
                    if cmd.is_finished and c == 0:
                        out.append(V("C01:hist:finished-without-execution", "%s finished but never executed" % nmi, tag=tag))
                for ev, r in zip(hist, returned):
                    if ev[0] == "result":
                        if r != ref[ev[1]]:
                            out.append(V("C01:hist:result-wrong-value", "result read returned %r, reference %r" % (r, ref[ev[1]]), tag=tag))
                        if r is not p.commands[names[ev[1]]]._result:
                            out.append(V("C01:hist:reread-other-object", "reads of %s returned different objects" % names[ev[1]], tag=tag))
                for consumer, producer, fin, rid in fed:
                    if not fin:
                        out.append(V("C01:hist:fed-unfinished", "%s read %s before it finished" % (consumer, producer), tag=tag))
                return out

            r = bfs([], lambda h, s: events, build, canon, invariant, depth)
            tot["states"] += r["states"]
            tot["transitions"] += r["transitions"]
            tot["evals"] += counter["n"]
            tot["nontrivial"] += r["states"]
            tot["judged"] += r["transitions"]
            tot["viols"] += r["viols"]
            k = "hist-states-%d" % r["states"]
            tot["outcomes"][k] = tot["outcomes"].get(k, 0) + 1
            tot["sample"] = {"program": G.render(n, edges, names), "bfs_depth": depth, "events": events,
                             "states": r["states"], "transitions": r["transitions"]}
    return tot


def _run_quiet(case):
    """commands that return NOTHING (side-effect-only plug-ins: no declared output, execute() returns None): every DAG on <=3 commands x
    every non-empty set of commands being of that kind x direct / list references x {API, source}; run(), run() again, every result
    read twice: every command executes exactly once"""
    from mpilot.program import Program
    from ..vlib import graph as VL

    _, n = case
    names = G.NAMINGS[0]
    viols, outcomes = [], {}
    evals = 0
    sample = None
    for es in G.dags(n):
        for kind in "dl":
            edges = tuple((c, p, kind) for c, p in es)
            for qmask in range(1, 3 ** n):
                for mode in ("api", "src"):
                    VL.reset()
                    # every assignment of {Node, Quiet (returns nothing), Idle (does not read its inputs)} with at least one non-Node
                    cls = lambda i: ("Node", "Quiet", "Idle")[qmask // 3 ** i % 3]
                    if mode == "src":
                        text = "\n".join(ln.replace("= Node(", "= %s(" % cls(i), 1) for i, ln in enumerate(G.render(n, edges, names).split("\n")))
                        p = Program.from_source(text, libraries=LIB)
                    else:
                        p = Program(libraries=LIB)
                        for i in range(n):
                            p.add_command(getattr(VL, cls(i)), names[i], dict(G.slots_of(n, edges, i, names)))
                    tag = {"n": n, "edges": edges, "classes": [cls(i) for i in range(n)], "mode": mode}
                    sample = tag
                    evals += 1
                    try:
                        p.run()
                        first = _counts(VL, names[:n])
                        p.run()
                        for _ in (1, 2):
                            for i in range(n):
                                p.commands[names[i]].result
                        final = _counts(VL, names[:n])
                    except Exception as exc:
                        viols.append(V("C01:quiet:raised:%s" % type(exc).__name__, "program with commands returning nothing raised %r" % (exc,), tag=tag))
                        continue
                    bad1 = {k: v for k, v in first.items() if v != 1}
                    bad2 = {k: v for k, v in final.items() if v != first[k]}
                    if bad1:
                        viols.append(V("C01:quiet:run:%s:%s" % ("executed-twice" if max(bad1.values()) > 1 else "not-executed", mode), "after run(): execution counts %r" % (bad1,), tag=tag))
                    elif bad2:
                        viols.append(V("C01:quiet:re-executed:%s" % mode, "second run() / reading results executed again: %r" % (bad2,), tag=tag))
                    k = "quiet:%s" % ("bad" if (bad1 or bad2) else "ok")
                    outcomes[k] = outcomes.get(k, 0) + 1
    return {"evals": max(evals, 1), "nontrivial": evals, "judged": evals, "viols": viols[:20], "outcomes": outcomes, "sample": sample, "states": 0, "transitions": 0}


def _run_dropped(case):
    """the commands outlive the Program object: `commands = Program.from_source(text).commands` (or a helper returning them), the program
    itself is garbage; reading every result must still execute every command exactly once with the reference value.  All DAGs n<=3 x d/l."""
    import gc
    from ..vlib import graph as VL

    _, n = case
    names = G.NAMINGS[0]
    viols, outcomes = [], {}
    evals = 0
    sample = None
    for es in G.dags(n):
        for kind in "dl":
            edges = tuple((c, p, kind) for c, p in es)
            for mode in ("api", "src"):
                for order in (range(n), reversed(range(n))):
                    tag = {"n": n, "edges": edges, "mode": mode}
                    sample = tag
                    evals += 1
                    cmds = _program(n, edges, names, mode).commands
                    gc.collect()
                    try:
                        got = {}
                        for i in order:
                            got[i] = cmds[names[i]].result
                        for i in range(n):
                            cmds[names[i]].result
                    except Exception as exc:
                        viols.append(V("C01:dropped-program:raised:%s" % type(exc).__name__, "reading results after the Program object was dropped raised %r" % (exc,), tag=tag))
                        outcomes["dropped:raised"] = outcomes.get("dropped:raised", 0) + 1
                        continue
                    cnt = _counts(VL, names[:n])
                    memo = {}
                    bad = {k: v for k, v in cnt.items() if v != 1}
                    if bad:
                        viols.append(V("C01:dropped-program:%s" % ("executed-twice" if max(bad.values()) > 1 else "not-executed"), "execution counts %r" % (bad,), tag=tag))
                    elif any(got[i] != G.value(n, edges, i, names, memo) for i in range(n)):
                        viols.append(V("C01:dropped-program:wrong-value", "results differ from the reference", tag=tag))
                    outcomes["dropped:ok"] = outcomes.get("dropped:ok", 0) + 1
    return {"evals": max(evals, 1), "nontrivial": evals, "judged": evals, "viols": viols[:20], "outcomes": outcomes, "sample": sample, "states": 0, "transitions": 0}


def _run_cross(case):
    """a command object of ANOTHER program (same model loaded twice: baseline and variant) given as a reference: the consumer is fed by
    exactly that object, the variant's own command of the same name executes once for its own sake; every DAG n<=3 x every edge replaced"""
    from mpilot.program import Program
    from ..vlib import graph as VL

    _, n = case
    names = G.NAMINGS[0]
    viols, outcomes = [], {}
    evals = 0
    sample = None
    for es in G.dags(n):
        if not es:
            continue
        for kind in "dl":
            edges = tuple((c, p, kind) for c, p in es)
            for ei, (c_, p_, _) in enumerate(edges):
                for baseline_run_first in (False, True):
                    VL.reset()
                    base = Program(libraries=LIB)
                    var = Program(libraries=LIB)
                    for i in range(n):
                        base.add_command(VL.Node, names[i], dict(G.slots_of(n, edges, i, names)))
                    for i in range(n):
                        slots = dict(G.slots_of(n, edges, i, names))
                        if i == c_:
                            foreign = base.commands[names[p_]]
                            slots = {k: ([foreign if x == names[p_] else x for x in v] if isinstance(v, list) else (foreign if v == names[p_] else v)) for k, v in slots.items()}
                        var.add_command(VL.Node, names[i], slots)
                    tag = {"n": n, "edges": edges, "foreign_reference": [names[c_], names[p_]], "baseline_run_first": baseline_run_first}
                    sample = tag
                    evals += 1
                    try:
                        if baseline_run_first:
                            base.run()
                        del VL.FED[:]
                        var.run()
                    except Exception as exc:
                        viols.append(V("C01:cross-program:raised:%s" % type(exc).__name__, "variant program with a command object of the baseline raised %r" % (exc,), tag=tag))
                        continue
                    want = id(base.commands[names[p_]]._result)
                    got = [rid for cons, prod, fin, rid in VL.FED if cons == names[c_] and prod == names[p_]]
                    if not got or any(g != want for g in got):
                        viols.append(V("C01:cross-program:fed-by-same-named-own-command", "%s was given the BASELINE's command %s as an object but was fed another object" % (names[c_], names[p_]), tag=tag))
                    k = "cross:%s" % ("ok" if got and all(g == want for g in got) else "bad")
                    outcomes[k] = outcomes.get(k, 0) + 1
        # a REFINED model: command i of the variant also consumes the BASELINE's command of the SAME NAME (as an object, in a direct slot or in
        # its list): an acyclic graph across two programs
        for kind in "dl":
            edges = tuple((c, p, kind) for c, p in es)
            for i_ in range(n):
                VL.reset()
                base = Program(libraries=LIB)
                var = Program(libraries=LIB)
                tag = {"n": n, "edges": edges, "refined": names[i_], "same_named_baseline_command_in": "direct slot" if kind == "d" else "list"}
                sample = tag
                evals += 1
                try:
                    for i in range(n):
                        base.add_command(VL.Node, names[i], dict(G.slots_of(n, edges, i, names)))
                    for i in range(n):
                        slots = dict(G.slots_of(n, edges, i, names))
                        if i == i_:
                            if kind == "d":
                                slots["D4"] = base.commands[names[i]]
                            else:
                                slots["L"] = list(slots.get("L", [])) + [base.commands[names[i]]]
                        var.add_command(VL.Node, names[i], slots)
                    var.run()
                except Exception as exc:
                    viols.append(V("C01:cross-program:same-name:raised:%s" % type(exc).__name__, "a command consuming the baseline's command of the same name raised %r" % (exc,), tag=tag))
                    continue
                want = id(base.commands[names[i_]]._result)
                got = [rid for cons, prod, fin, rid in VL.FED if cons == names[i_] and prod == names[i_]]
                if not got or any(g != want for g in got):
                    viols.append(V("C01:cross-program:same-name:not-fed-by-baseline", "%s was given the baseline's %s but was fed %d other objects" % (names[i_], names[i_], len(got)), tag=tag))
                k = "cross-same-name:%s" % ("ok" if got and all(g == want for g in got) else "bad")
                outcomes[k] = outcomes.get(k, 0) + 1
    return {"evals": max(evals, 1), "nontrivial": evals, "judged": evals, "viols": viols[:20], "outcomes": outcomes, "sample": sample, "states": 0, "transitions": 0}


def _run_replace(case):
    """the documented way of editing a model: `del program.commands[name]` and `add_command` under the same name again.  Every DAG n<=3 x direct /
    list references x both orders of adding the commands x every command replaced x {before the first run, after a run}: after the edit the
    program is the NEW set of commands: each executes exactly once in the next run, the removed one never again, and consumers are fed by the new one"""
    from mpilot.program import Program
    from ..vlib import graph as VL

    _, n = case
    names = G.NAMINGS[0]
    viols, outcomes = [], {}
    evals = 0
    sample = None
    for es in G.dags(n):
        for kind in "dl":
            edges = tuple((c, p, kind) for c, p in es)
            for order in (list(range(n)), list(range(n - 1, -1, -1))):
                for r_ in range(n):
                    for run_first in (False, True):
                        VL.reset()
                        p = Program(libraries=LIB)
                        tag = {"n": n, "edges": edges, "added_in_order": [names[i] for i in order], "replaced": names[r_], "run_before_the_edit": run_first}
                        sample = tag
                        evals += 1
                        try:
                            for i in order:
                                p.add_command(VL.Node, names[i], dict(G.slots_of(n, edges, i, names)))
                            if run_first:
                                p.run()
                            old = p.commands[names[r_]]
                            del p.commands[names[r_]]
                            p.add_command(VL.Node, names[r_], dict(G.slots_of(n, edges, r_, names)))
                            VL.reset()
                            p.run()
                        except Exception as exc:
                            viols.append(V("C01:replace:raised:%s" % type(exc).__name__, "replacing %s and running raised %r" % (names[r_], exc), tag=tag))
                            continue
                        new = p.commands[names[r_]]
                        ok = True
                        cnt = VL.LOG.count(("enter", names[r_]))
                        want_cnt = 1
                        if cnt != want_cnt:
                            viols.append(V("C01:replace:executed-%d-times" % cnt, "after replacing %s the next run executed a command of that name %d times (the removed one %s)" % (
                                names[r_], cnt, "ran again" if old.is_finished and not run_first else "?"), tag=tag))
                            ok = False
                        if not new.is_finished:
                            viols.append(V("C01:replace:new-command-not-executed", "the command added in place of %s was not executed" % names[r_], tag=tag))
                            ok = False
                        elif not run_first:
                            bad = [(c, pr) for c, pr, fin, rid in VL.FED if pr == names[r_] and rid != id(new._result)]
                            if bad:
                                viols.append(V("C01:replace:fed-by-removed-command", "%s was fed by the REMOVED command %s" % (bad[0][0], names[r_]), tag=tag))
                                ok = False
                        k = "replace:%s" % ("ok" if ok else "bad")
                        outcomes[k] = outcomes.get(k, 0) + 1
        # a LIST argument edited in place (`command.get_argument_value("L").append(name)`): programs loaded from a command file and built through the
        # API, every consumer with a list x every other command that may be appended without closing a loop, multi-line and one-line lists
        edges = tuple((c, p, "l") for c, p in es)
        for mode in ("src", "api"):
            for c_ in sorted({c for c, _ in es}):
                for x_ in range(n):
                    if x_ == c_ or (c_, x_) in es or G.has_cycle(n, list(edges) + [(c_, x_, "l")]):
                        continue
                    tag = {"n": n, "edges": edges, "built": mode, "appended": [names[c_], names[x_]]}
                    sample = tag
                    evals += 1
                    try:
                        p = _program(n, edges, names, mode)
                        p.commands[names[c_]].get_argument_value("L").append(names[x_])
                        VL.reset()
                        p.run()
                    except Exception as exc:
                        viols.append(V("C01:edit-list:raised:%s" % type(exc).__name__, "appending %s to the list of %s and running raised %r" % (names[x_], names[c_], exc), tag=tag))
                        continue
                    fed = sorted(pr for c, pr, fin, rid in VL.FED if c == names[c_] and fin)
                    want = sorted([names[p_] for c, p_ in es if c == c_] + [names[x_]])
                    if fed != want:
                        viols.append(V("C01:edit-list:not-fed-by-appended-reference", "%s lists %r after the edit but was fed %r" % (names[c_], want, fed), tag=tag))
                    k = "edit-list:%s" % ("ok" if fed == want else "bad")
                    outcomes[k] = outcomes.get(k, 0) + 1
    return {"evals": max(evals, 1), "nontrivial": evals, "judged": evals, "viols": viols[:20], "outcomes": outcomes, "sample": sample, "states": 0, "transitions": 0}


def _run_greedy(case):
    """ONE Python list (of result names, of command objects, or mixed; 1-3 sources) given as the list argument of TWO consumers, one of which uses
    up the list it receives while executing; every order of adding and of demanding the consumers, run once and twice: each consumer is fed the
    finished result of every source in the list, once per entry"""
    import itertools
    from mpilot.program import Program
    from ..vlib import graph as VL

    names = G.NAMINGS[0]
    viols, outcomes = [], {}
    evals = 0
    sample = None
    for nsrc in (1, 2, 3):
        for forms in itertools.product(("name", "object"), repeat=nsrc):
            for container in ("list", "tuple"):
                for order in (("X", "Y"), ("Y", "X")):
                    for greedy in ("X", "Y", "both"):
                        for runs in (1, 2):
                            VL.reset()
                            p = Program(libraries=LIB)
                            for i in range(nsrc):
                                p.add_command(VL.Node, names[i], {})
                            shared = [names[i] if f == "name" else p.commands[names[i]] for i, f in enumerate(forms)]
                            if container == "tuple":
                                shared = tuple(shared)
                            tag = {"sources": nsrc, "entries": list(forms), "container": container, "added": list(order), "greedy": greedy, "runs": runs}
                            sample = tag
                            evals += 1
                            try:
                                for c in order:
                                    p.add_command(VL.Greedy if greedy in (c, "both") else VL.Node, c, {"L": shared})
                                for _ in range(runs):
                                    p.run()
                            except Exception as exc:
                                viols.append(V("C01:shared-list:raised:%s" % type(exc).__name__, "two consumers of one list object raised %r" % (exc,), tag=tag))
                                continue
                            ok = True
                            for c in order:
                                got = sorted(prod for cons, prod, fin, rid in VL.FED if cons == c and fin)
                                if got != sorted(names[:nsrc]) or VL.LOG.count(("enter", c)) != 1:
                                    viols.append(V("C01:shared-list:consumer-not-fed-by-all-references", "%s references %r through a list shared with the other consumer but was fed %r (executed %d times)" % (
                                        c, list(names[:nsrc]), got, VL.LOG.count(("enter", c))), tag=tag))
                                    ok = False
                            k = "shared-list:%s" % ("ok" if ok else "bad")
                            outcomes[k] = outcomes.get(k, 0) + 1
    return {"evals": max(evals, 1), "nontrivial": evals, "judged": evals, "viols": viols[:20], "outcomes": outcomes, "sample": sample, "states": 0, "transitions": 0}


REAL_LIBS = ("mpilot.libraries.eems.basic", "mpilot.libraries.eems.fuzzy", "mc.vlib.const")


def _run_real(case):
    """the BUILT-IN commands: every data command x arity x preset consuming counting producers, next to a second consumer of the same
    producers and a consumer of its own result, both textual orders, built through the API and re-loaded from the serialised text;
    events run(), run() again, every result: every command (producers AND built-ins, counted by a wrapper around execute) executes
    exactly once, and at entry every referenced command is the program's own, finished command"""
    import numpy
    from mpilot.program import Program
    from mpilot.commands import Command
    from ..ref import sig as SIG
    from .. import numdrv as D
    from ..vlib import const as C

    _, cmd, n = case
    fin = SIG.input_fuzz(cmd) == "fz"
    fout = cmd in SIG.FUZZY_PRODUCERS
    slots = SIG.result_slots(cmd)
    C.TABLE["nf"] = lambda: numpy.ma.MaskedArray([0.5, 2.0, -1.0, 0.0, 3.0], mask=[False, False, False, True, False])
    C.TABLE["fz"] = lambda: numpy.ma.MaskedArray([0.5, 1.0, -1.0, 0.0, 0.25], mask=[False, True, False, False, False])
    log = []
    fed = []
    probe = Program(libraries=REAL_LIBS)
    classes = set(probe.command_library.values())
    saved = {}
    current = {"p": None}

    def wrap(orig):
        def execute(self, **kw):
            if getattr(self, "_mc_inside", False):
                return orig(self, **kw)  # a subclass delegating to its base class: still one execution
            self._mc_inside = True
            try:
                log.append(self.result_name)
                for v in kw.values():
                    for c in (v if isinstance(v, (list, tuple)) else [v]):
                        if isinstance(c, Command):
                            own = current["p"].commands.get(c.result_name)
                            if own is not c:
                                fed.append("%s was handed a command object for %s that is not the program's own" % (self.result_name, c.result_name))
                return orig(self, **kw)
            finally:
                self._mc_inside = False
        return execute

    for cls in classes:
        for k in cls.__mro__:
            if "execute" in k.__dict__ and k is not Command and k not in saved:
                saved[k] = k.__dict__["execute"]
                k.execute = wrap(saved[k])
    viols, outcomes = [], {}
    evals = 0
    sample = None
    try:
        follower = ("FuzzyNot", {}) if fout else ("Copy", {})
        for params in D.presets_small(cmd, n):
            for order in (0, 1):
                for mode in ("api", "src"):
                    p = Program(libraries=REAL_LIBS)
                    lib = p.command_library
                    ins = ["X%d" % i for i in range(n)]

                    def argsof():
                        a = dict(params)
                        if len(slots) == 2:
                            a[slots[0][0]], a[slots[1][0]] = ins[0], ins[1]
                        elif slots[0][1]:
                            a[slots[0][0]] = list(ins)
                        else:
                            a[slots[0][0]] = ins[0]
                        return a

                    cmds = [("X%d" % i, lib["ConstFZ" if fin else "ConstNF"], {"Key": "fz" if fin else "nf"}) for i in range(n)]
                    cmds += [("T", lib[cmd], argsof()), ("T2", lib[cmd], argsof()), ("W", lib[follower[0]], dict(follower[1], InFieldName="T"))]
                    if order:
                        cmds.reverse()
                    for name, cls, a in cmds:
                        p.add_command(cls, name, a)
                    if mode == "src":
                        p = Program.from_source(p.to_string(), libraries=REAL_LIBS)
                    names = [c[0] for c in cmds]
                    tag = {"command": cmd, "params": params, "order": order, "mode": mode, "source": p.to_string()}
                    sample = tag
                    current["p"] = p
                    del log[:]
                    del fed[:]
                    try:
                        with numpy.errstate(all="ignore"):
                            p.run()
                            first = {nm: log.count(nm) for nm in names}
                            p.run()
                            for nm in names:
                                p.commands[nm].result
                    except Exception as exc:
                        outcomes["real:raised:" + type(exc).__name__] = outcomes.get("real:raised:" + type(exc).__name__, 0) + 1
                        continue  # (a preset that raises on this data: outside this property)
                    evals += 1
                    final = {nm: log.count(nm) for nm in names}
                    bad1 = {k: v for k, v in first.items() if v != 1}
                    bad2 = {k: v for k, v in final.items() if v != first[k]}
                    if bad1:
                        viols.append(V("C01:real:%s:%s" % (cmd, "executed-twice" if max(bad1.values()) > 1 else "not-executed"),
                                       "after run(): execution counts %r (every command must execute exactly once)" % (bad1,), **tag))
                    elif bad2:
                        viols.append(V("C01:real:%s:re-executed" % cmd, "a second run() / reading results executed again: %r" % (bad2,), **tag))
                    elif fed:
                        viols.append(V("C01:real:%s:fed-by-foreign-command" % cmd, fed[0], **tag))
                    outcomes["real:ok" if not (bad1 or bad2 or fed) else "real:bad"] = outcomes.get("real:ok" if not (bad1 or bad2 or fed) else "real:bad", 0) + 1
    finally:
        for k, orig in saved.items():
            k.execute = orig
    return {"evals": max(evals, 1), "nontrivial": evals, "judged": evals, "viols": viols[:20], "outcomes": outcomes, "sample": sample, "states": 0, "transitions": 0}


def run(case):
    case = tuple(case)
    if case[0] == "real":
        return _run_real(case)
    if case[0] == "quiet":
        return _run_quiet(case)
    if case[0] == "dropped":
        return _run_dropped(case)
    if case[0] == "cross":
        return _run_cross(case)
    if case[0] == "greedy":
        return _run_greedy(case)
    if case[0] == "replace":
        return _run_replace(case)
    if case[0] == "graphs":
        return _run_graphs(case)
    return _run_hist(case)
