"""C20 — parameter cleaning is typed, pure and idempotent.

Every parameter class in every configuration used by the libraries x a raw alphabet of ~50 values of every kind the parser or the
API can deliver x working directory {None, absolute, relative}.  For every (configuration, raw value): the outcome is a value of
the documented type or the parameter error (never a raw exception) and matches the three-valued expectation table
mc/ref/params.py; clean(v) twice gives equal values; clean(clean(v)) == clean(v); the raw value and the program are unchanged.
Histories: explicit-state search over all ordered pairs (thorough: triples) of cleans on the SAME parameter object: the last
result must equal the result on a fresh object.
"""
import copy
import itertools
import os
import re

import numpy

from ..core import V
from .. import snapshot
from ..ref import params as RP

ID = "C20"
LEVEL = "model_checking"
CHUNK = 1
LIBS = ("mc.vlib.const", "mc.vlib.echo")
RULE = ("states = (parameter configuration, working directory, history of cleans on one parameter object); transitions = one clean(); "
        "invariant = result equals the result on a fresh object, equals the expectation table where it is defined, is idempotent "
        "and pure; non-trivial = distinct (configuration, wd, raw value) and distinct histories")
ASSUMPTIONS = ["values the statement does not classify (bool for a number, number for a path, ...) are UNSPECIFIED: only 'no raw "
               "exception', repeatability, idempotence and purity are demanded there", "idempotence of paths only under an absolute working directory"]

CSV_TABLE = {"Float": "float", "Integer": "int"}
CONFIGS = [
    ("Str", "StringParameter", {}), ("Num", "NumberParameter", {}), ("Bool", "BooleanParameter", {}),
    (("Path", True), "PathParameter", {"must_exist": True}), (("Path", False), "PathParameter", {"must_exist": False}),
    (("Result", "any", "*"), "ResultParameter", {}), (("Result", "data", "*"), "ResultParameter", {"output_type": "Data"}),
    (("Result", "data", "nf"), "ResultParameter", {"output_type": "Data", "is_fuzzy": False}),
    (("Result", "data", "fz"), "ResultParameter", {"output_type": "Data", "is_fuzzy": True}),
    (("Result", "any", "fz"), "ResultParameter", {"is_fuzzy": True}),
    (("List", "Str"), "ListParameter", {"value_type": "Str"}), (("List", "Num"), "ListParameter", {"value_type": "Num"}),
    (("List", "Bool"), "ListParameter", {"value_type": "Bool"}),
    (("List", ("Result", "data", "nf")), "ListParameter", {"value_type": "ResultNF"}),
    (("List", ("Result", "any", "*")), "ListParameter", {"value_type": "ResultAny"}),
    (("List", ("List", "Num")), "ListParameter", {"value_type": "ListNum"}),
    ("Tuple", "TupleParameter", {}), ("Data", "DataParameter", {}),
    (("DType", CSV_TABLE), "DataTypeParameter", {"table": "csv"}), (("DType", CSV_TABLE), "DataTypeParameter", {"table": "default"}),
]
RAWS = [
    ("int", 0), ("int", 1), ("int", 5), ("int", -3), ("float", 2.5), ("float", -0.0), ("float", 1e300), ("bool", True), ("bool", False),
    ("str", "5"), ("str", "2.5"), ("str", "-7"), ("str", "1e3"), ("str", " 7 "), ("str", "abc"), ("str", "true"), ("str", "FALSE"), ("str", "False"),
    ("str", "18446744073709551615"), ("str", "9223372036854775807"), ("str", "-9007199254740993"), ("int", 2 ** 63 - 1), ("list", [("str", "20261003123456789"), ("int", 1)]),  # whole numbers a double cannot hold: the integer the text spells
    ("str", "0"), ("str", "1"), ("str", "2"), ("str", ""), ("str", "Float"), ("str", "Integer"), ("str", "float"),
    ("str", "inf"), ("str", "-Infinity"), ("str", "nan"), ("str", "1e999"), ("str", "1_0"), ("str", "0x10"), ("str", "1.5.2"),
    ("str", "nf_fin"), ("str", "fz_fin"), ("str", "nf_un"), ("str", "fz_un"), ("str", "ech_fin"), ("str", "ech_un"), ("str", "noout_un"), ("str", "nosuch"),
    ("str", "rel/a.csv"), ("str", "exists.csv"), ("str", "ABS/exists.csv"), ("str", "ABS/missing.csv"),
    ("str", "WDIR/exists.csv"), ("str", "run-10:30.csv"), ("str", "model:v2.nc"), ("str", "http://host/x.nc"),  # names with a colon are names  # a path that begins with the working directory's own text (still relative when the working directory is)
    ("list", []), ("list", [("int", 1), ("str", "2.5")]), ("list", [("str", "a"), ("str", "b")]), ("list", [("str", "nf_fin"), ("str", "nf_un")]),
    ("list", [("str", "nf_fin"), ("str", "fz_fin")]), ("list", [("list", [("int", 1)]), ("list", [])]), ("list", [("str", "true"), ("int", 0)]),
    ("list", [("int", 1), ("list", [("int", 2)])]), ("list", [("cmd", "nf_fin")]),
    ("dict", {}), ("dict", {"a": "b"}), ("dict", {"k": 5}), ("none",),
    ("cmd", "nf_fin"), ("cmd", "fz_fin"), ("cmd", "nf_un"), ("cmd", "fz_un"), ("cmd", "ech_fin"), ("cmd", "ech_un"),
    ("type", "float"), ("type", "int"), ("type", "str"), ("np", "float64", 1.5), ("np", "int64", 3), ("np", "float32", 2.5), ("np", "float32", -0.75), ("np", "float16", 0.5), ("np", "uint8", 7), ("ndarray",),
    # a command object built directly, belonging to NO program (`Cls(name, arguments)`; program defaults to None): whatever cleaning says about it,
    # it leaves the object as it was
    ("freecmd", "nf_un"), ("freecmd", "fz_un"), ("list", [("freecmd", "nf_un")]),
]
WDS = ["none", "abs", "rel", "empty"]  # "empty": working_dir == "" (what the CLI passes for a command file given by its bare name)


def BOUND(tier):
    return "%d configurations x %d raw values x 3 working directories; histories: all ordered pairs%s of cleans on one object" % (
        len(CONFIGS), len(RAWS), "" if tier == "quick" else " and all triples over a 16-value sub-alphabet")


def cases(tier):
    for ci in range(len(CONFIGS)):
        for wd in WDS:
            yield (ci, wd, tier)
    for ci in range(len(CONFIGS)):
        yield ("preload", ci, "abs", tier)
    yield ("srcapi",)
    for ci in _RESULT_CONFIGS():
        yield ("cross", ci, tier)
    for ci in range(len(CONFIGS)):
        yield ("wdhist", ci, tier)


def _RESULT_CONFIGS():
    return [i for i, c in enumerate(CONFIGS) if (isinstance(c[0], tuple) and (c[0][0] == "Result" or (c[0][0] == "List" and isinstance(c[0][1], tuple) and c[0][1][0] == "Result")))]


def _make_param(cfg):
    from mpilot import params as P

    _, cls, kw = cfg
    kw = dict(kw)
    sub = {"Str": lambda: P.StringParameter(), "Num": lambda: P.NumberParameter(), "Bool": lambda: P.BooleanParameter(),
           "ResultNF": lambda: P.ResultParameter(P.DataParameter(), is_fuzzy=False), "ResultAny": lambda: P.ResultParameter(),
           "ListNum": lambda: P.ListParameter(P.NumberParameter())}
    if "value_type" in kw:
        kw["value_type"] = sub[kw["value_type"]]()
    if kw.get("output_type") == "Data":
        kw["output_type"] = P.DataParameter()
    if "table" in kw:
        t = kw.pop("table")
        if t == "csv":
            kw["valid_types"] = {"Float": float, "Integer": int}
    return getattr(P, cls)(**kw)


_CTX = {}
_SPEC = {}


def _fresh_commands(p):
    """replace the commands of the context program by fresh command objects (same names, same finished/unfinished pattern)"""
    lib = _SPEC["lib"]
    spec = {"nf_fin": ("ConstNF", True), "fz_fin": ("ConstFZ", True), "nf_un": ("ConstNF", False), "fz_un": ("ConstFZ", False),
            "ech_fin": ("Echo", True), "ech_un": ("Echo", False), "noout_un": ("NoOut", False)}
    p.commands = {}
    for name, (cls, fin) in spec.items():
        p.add_command(lib[cls], name, {"Key": "arr"} if cls.startswith("Const") else {})
        if fin:
            p.commands[name].run()


def _context(wdname):
    """one real Program per (worker, wd) with finished/unfinished producers; returns (program, ctx for the expectation table, abs dir)"""
    if wdname in _CTX:
        return _CTX[wdname]
    from mpilot.program import Program
    from ..vlib import const as C

    base = snapshot.scratch_dir("c20_")
    open(os.path.join(base, "exists.csv"), "w").write("A\n1\n")
    C.TABLE["arr"] = lambda: numpy.ma.MaskedArray([1.0, 2.0])
    if wdname == "abs2":
        os.makedirs(os.path.join(base, "second"), exist_ok=True)
        open(os.path.join(base, "second", "exists.csv"), "w").write("A\n2\n")
    wd = {"none": None, "abs": base, "rel": os.path.relpath(base), "abs2": os.path.join(base, "second"), "empty": ""}[wdname]
    p = Program(libraries=LIBS, working_dir=wd)
    lib = p.command_library
    _SPEC["lib"] = lib
    spec = {"nf_fin": ("ConstNF", True), "fz_fin": ("ConstFZ", True), "nf_un": ("ConstNF", False), "fz_un": ("ConstFZ", False),
            "ech_fin": ("Echo", True), "ech_un": ("Echo", False), "noout_un": ("NoOut", False)}
    for name, (cls, fin) in spec.items():
        p.add_command(lib[cls], name, {"Key": "arr"} if cls.startswith("Const") else {})
        if fin:
            p.commands[name].run()
    cmds = {}
    for name, (cls, fin) in spec.items():
        cmds[name] = {"fuzzy": cls == "ConstFZ", "kind": "data" if cls.startswith("Const") else ("none" if cls == "NoOut" else "other"), "finished": fin}
    ctx = {"wd": wd, "exists": {os.path.join(base, "exists.csv")} | ({os.path.join(wd, "exists.csv")} if wd else set()), "commands": cmds}
    _CTX[wdname] = (p, ctx, base)
    return _CTX[wdname]


def _mk(raw, p, base):
    t = raw[0]
    if t in ("int", "float", "bool"):
        return raw[1]
    if t == "str":
        return raw[1].replace("ABS", base).replace("WDIR", p.working_dir or "WDIR")
    if t == "list":
        return [_mk(x, p, base) for x in raw[1]]
    if t == "dict":
        return dict(raw[1])
    if t == "none":
        return None
    if t == "cmd":
        return p.commands[raw[1]]
    if t == "freecmd":
        twin = p.commands[raw[1]]
        return type(twin)("free_" + raw[1], list(twin.arguments))
    if t == "type":
        return {"float": float, "int": int, "str": str}[raw[1]]
    if t == "np":
        return getattr(numpy, raw[1])(raw[2])
    if t == "ndarray":
        return numpy.ma.MaskedArray([1.0, 2.0], mask=[False, True])
    raise ValueError(raw)


def _raw_abs(raw, base, wd=None):
    if raw[0] == "str":
        return ("str", raw[1].replace("ABS", base).replace("WDIR", wd or "WDIR"))
    if raw[0] == "list":
        return ("list", [_raw_abs(x, base, wd) for x in raw[1]])
    return raw


def _snapshot_program(p):
    return (p.working_dir, tuple(sorted(p.command_library)),
            tuple((n, c.is_finished, id(c._result), len(c.arguments), tuple((a.name, repr(a.value)[:80]) for a in c.arguments)) for n, c in p.commands.items()))


def _freeze(v):
    """comparable, type-aware form of a clean() result"""
    from mpilot.commands import Command

    if isinstance(v, Command):
        return ("cmd", v.result_name)
    if isinstance(v, float) and v != v:
        return ("float", "nan")
    if isinstance(v, (list, tuple)):
        return (type(v).__name__, tuple(_freeze(x) for x in v))
    if isinstance(v, dict):
        return ("dict", tuple(sorted((k, _freeze(x)) for k, x in v.items())))
    if isinstance(v, numpy.ndarray):
        return ("ndarray", v.shape, numpy.ma.getmaskarray(v).tobytes(), numpy.ma.filled(v, 0).tobytes())
    if isinstance(v, type):
        return ("type", v.__name__)
    if isinstance(v, float):
        return ("float", repr(v))
    if isinstance(v, str):
        return ("str", re.sub(r" at 0x[0-9a-fA-F]+", " at 0x?", v))  # text made from an object's default repr carries its address
    return (type(v).__name__, v if isinstance(v, (int, bool, type(None))) else repr(v))


def _clean(param, v, p):
    from mpilot.exceptions import ProgramError

    try:
        return ("ok", param.clean(v, p, 7))
    except ProgramError as exc:
        return ("perr", type(exc).__name__, getattr(exc, "lineno", None))
    except Exception as exc:
        return ("raw", type(exc).__name__, str(exc)[:80])


def _matches(exp, res, p):
    """does a successful result agree with a 'be*' expectation"""
    from mpilot.commands import Command

    v = res[1]
    if exp[0] == "be":
        w = exp[1]
        if isinstance(w, bool) or isinstance(v, bool):
            return type(v) is bool and type(w) is bool and v == w
        if isinstance(w, float):
            return isinstance(v, float) and (v == w or (v != v and w != w)) and repr(float(v)) == repr(w)
        if isinstance(w, int):
            return isinstance(v, int) and not isinstance(v, bool) and v == w
        return type(v) is type(w) and v == w
    if exp[0] == "be-num":
        import numbers

        return isinstance(v, numbers.Real) and not isinstance(v, bool) and float(v) == float(exp[1])
    if exp[0] == "be-cmd":
        return isinstance(v, Command) and v is p.commands[exp[1]]
    if exp[0] == "be-list":
        return isinstance(v, list) and len(v) == len(exp[1]) and all(_matches(e, ("ok", x), p) for e, x in zip(exp[1], v))
    if exp[0] == "be-typename":
        return isinstance(v, type) and v.__name__ == exp[1]
    if exp[0] == "be-same":
        return isinstance(v, numpy.ndarray)
    return True


def _run_cross(case):
    """histories over DIFFERENT parameter objects sharing one program: clean(a) by parameter A, then clean(b) by parameter B; the second
    outcome must equal the outcome on a fresh program (commands must not remember earlier validations)"""
    _, ci, tier = case
    p, ctx, base = _context("abs")
    refs = [i for i, r in enumerate(RAWS) if (r[0] == "cmd") or (r[0] == "str" and r[1] in ctx["commands"]) or
            (r[0] == "list" and r[1] and all(x[0] in ("cmd", "str") and x[1] in ctx["commands"] for x in r[1]))]
    viols = []
    states = transitions = 0
    cfgB = CONFIGS[ci]
    fresh = {}
    for b in refs:
        _fresh_commands(p)
        fresh[b] = _fz(_clean(_make_param(cfgB), _mk(RAWS[b], p, base), p))
    for ca in _RESULT_CONFIGS():
        cfgA = CONFIGS[ca]
        for a in refs:
            for b in refs:
                _fresh_commands(p)
                _clean(_make_param(cfgA), _mk(RAWS[a], p, base), p)
                rb = _fz(_clean(_make_param(cfgB), _mk(RAWS[b], p, base), p))
                states += 1
                transitions += 2
                if rb != fresh[b]:
                    viols.append(V("C20:%s:depends-on-earlier-validation" % cfgB[1], "%s%r.clean(%r) gave %r after %s%r.clean(%r) on the same program, %r on a fresh program" % (
                        cfgB[1], cfgB[2], RAWS[b], rb, cfgA[1], cfgA[2], RAWS[a], fresh[b]), history=[repr(cfgA), repr(RAWS[a]), repr(cfgB), repr(RAWS[b])]))
    _fresh_commands(p)
    return {"evals": transitions, "nontrivial": states, "judged": states, "viols": viols[:40], "states": states, "transitions": transitions,
            "outcomes": {"cross:%s" % ("ok" if not viols else "bad"): 1}, "sample": {"second_parameter": repr(cfgB), "histories": states}}


def _run_wdhist(case):
    """the same parameter object used by programs with DIFFERENT working directories (parameter objects live on the command classes and are
    shared by every program of the process): clean(a) under wd1 then clean(b) under wd2 must equal clean(b) under wd2 on a fresh object"""
    _, ci, tier = case
    cfg = CONFIGS[ci]
    kind = cfg[0]
    ctxs = {w: _context(w) for w in ("none", "abs", "rel", "abs2")}
    raws = [i for i, r in enumerate(RAWS) if r[0] in ("str", "int", "float", "bool", "none") or (r[0] == "list" and len(r[1]) <= 2)]
    if not (isinstance(kind, tuple) and kind[0] == "Path"):
        raws = raws[::3]
    viols = []
    states = transitions = 0
    fresh = {}
    for w, (p, ctx, base) in ctxs.items():
        for b in raws:
            fresh[(w, b)] = _fz(_clean(_make_param(cfg), _mk(RAWS[b], p, ctxs["abs"][2]), p))
    for w1 in ctxs:
        for w2 in ctxs:
            if w1 == w2:
                continue
            p1, p2 = ctxs[w1][0], ctxs[w2][0]
            for a in raws:
                for b in ([a] if not (isinstance(kind, tuple) and kind[0] == "Path") else raws):
                    param = _make_param(cfg)
                    _clean(param, _mk(RAWS[a], p1, ctxs["abs"][2]), p1)
                    rb = _fz(_clean(param, _mk(RAWS[b], p2, ctxs["abs"][2]), p2))
                    states += 1
                    transitions += 2
                    if rb != fresh[(w2, b)]:
                        viols.append(V("C20:%s:depends-on-earlier-program" % cfg[1], "%s: clean(%r) under working dir %s after clean(%r) under %s gave %r, fresh object %r" % (
                            cfg[1], RAWS[b], w2, RAWS[a], w1, rb, fresh[(w2, b)]), history=[w1, repr(RAWS[a]), w2, repr(RAWS[b])]))
    return {"evals": transitions, "nontrivial": states, "judged": states, "viols": viols[:40], "states": states, "transitions": transitions,
            "outcomes": {"wdhist:%s" % ("ok" if not viols else "bad"): 1}, "sample": {"parameter": repr(cfg), "histories": states}}


BUILTIN_SETS = (("mpilot.libraries.eems.basic", "mpilot.libraries.eems.csv", "mpilot.libraries.eems.fuzzy"),
                ("mpilot.libraries.eems.basic", "mpilot.libraries.eems.netcdf", "mpilot.libraries.eems.fuzzy"))


def _run_preloaded(case):
    """the same judgement in a forked child in which programs over BOTH built-in library sets have been constructed first: what a
    parameter object accepts and returns is a function of its own configuration, not of which libraries this process has loaded"""
    import os
    import pickle

    _, ci, wdname, tier = case
    r, w = os.pipe()
    pid = os.fork()
    if pid == 0:
        try:
            os.close(r)
            try:
                from mpilot.program import Program

                for libs in BUILTIN_SETS:
                    Program(libraries=libs)
                _CTX.clear()
                out = run((ci, wdname, tier))
                for v in out["viols"]:
                    v["key"] += ":after-loading-the-built-in-libraries"
                    v.setdefault("detail", {})
                out["viols"] = out["viols"][:20]
            except BaseException as exc:  # noqa
                out = {"evals": 1, "nontrivial": 0, "judged": 0, "viols": [V("C20:preloaded:harness-error:" + type(exc).__name__, repr(exc))], "outcomes": {}, "sample": None}
            with os.fdopen(w, "wb") as f:
                pickle.dump(out, f)
        finally:
            os._exit(0)
    os.close(w)
    with os.fdopen(r, "rb") as f:
        data = f.read()
    os.waitpid(pid, 0)
    return pickle.loads(data)


SRCAPI = {
    "LS": [[], ["a"], ["a", "b c"], [["a", "b"], ["c"]], [["a"], "b"], [1, "x"], [[1, 2], [3], 4]],
    "LN": [[1, 2.5], [[1, 2], [3]], [[1], 2], []],
    "LB": [[True, False], [[True]], [1, 0]],
    "L": [[1, "a"], [[1, 2], [3], 4], [["a", ["b"]]], [], [[[]]], [2.5, ["x y"]]],  # (no booleans here: in a command file True is a word until a BooleanParameter reads it)
    "LL": [[[1], [2, 3]], [[1], 2], [1, 2], [[]], [[[1]]]],
    "LLS": [[[["a"]]], [["a"]], [[["a", "b"], []], []]],
    "S": ["a b", 5, 2.5], "N": [5, 2.5, "7"], "B": [True, "true", 0],
}


def _run_srcapi(case):
    """the same argument given in a command file and as the plain Python value through add_command cleans to the same value (or the same
    error): lists arrive from the parser wrapped item by item, from the API as they are - cleaning must not see the difference"""
    from mpilot.program import Program
    from mpilot.exceptions import MPilotError
    from ..ref import grammar as G
    from . import c15

    viols, outcomes = [], {}
    evals = 0
    sample = None
    libs = ("mc.vlib.echo",)

    def cleaned(p):
        cmd = p.commands["r"]
        out = []
        for a in cmd.arguments:
            try:
                out.append((a.name, "ok", _fz(("ok", cmd.inputs[a.name].clean(a.value, p, None)))))
            except MPilotError as exc:
                out.append((a.name, "err", type(exc).__name__))
            except Exception as exc:
                out.append((a.name, "raw", type(exc).__name__))
        return out

    for slot, values in SRCAPI.items():
        for v in values:
            evals += 1
            text = G.render(G.items_of([("r", "Echo", [(slot, c15._src_value(v))])]))[0]
            tag = {"parameter": slot, "value": repr(v), "text": text}
            sample = tag
            try:
                ps = Program.from_source(text, libraries=libs)
                pa = Program(libraries=libs)
                pa.add_command(pa.find_command_class("Echo"), "r", {slot: v})
            except Exception as exc:
                outcomes["srcapi:load-raised:" + type(exc).__name__] = outcomes.get("srcapi:load-raised:" + type(exc).__name__, 0) + 1
                continue
            a, b = cleaned(ps), cleaned(pa)
            if a != b:
                viols.append(V("C20:ListParameter:source-and-api-differ" if slot.startswith("L") else "C20:%s:source-and-api-differ" % slot,
                               "Echo(%s = %r): cleaned from source %r, through the API %r" % (slot, v, a, b), **tag))
            k = "srcapi:%s" % ("same" if a == b else "differ")
            outcomes[k] = outcomes.get(k, 0) + 1
    return {"evals": evals, "nontrivial": evals, "judged": evals, "unspecified": 0, "states": evals, "transitions": evals * 2, "viols": viols[:20], "outcomes": outcomes, "sample": sample}


def run(case):
    if case[0] == "srcapi":
        return _run_srcapi(tuple(case))
    if case[0] == "preload":
        return _run_preloaded(tuple(case))
    if case[0] == "cross":
        return _run_cross(tuple(case))
    if case[0] == "wdhist":
        return _run_wdhist(tuple(case))
    ci, wdname, tier = case
    cfg = CONFIGS[ci]
    kind = cfg[0]
    if isinstance(kind, list):
        kind = _tuplify(kind)
    p, ctx, base = _context(wdname)
    viols, outcomes = [], {}
    evals = judged = unspec = 0
    states = transitions = 0
    cname = "%s%s" % (cfg[1], "" if not cfg[2] else ":" + ",".join("%s=%s" % kv for kv in sorted(cfg[2].items())))
    fresh = {}
    sample = None
    skip = {ri for ri, raw in enumerate(RAWS) if raw[0] == "ndarray" and kind != "Data"}  # arrays are only deliverable to Data parameters
    for ri, raw in enumerate(RAWS):
        if ri in skip:
            continue
        v = _mk(raw, p, base)
        before_prog = _snapshot_program(p)
        is_cmdish = raw[0] == "cmd" or (raw[0] == "list" and any(x[0] == "cmd" for x in raw[1]))
        vcopy = None if is_cmdish or raw[0] in ("ndarray",) else copy.deepcopy(v)
        param = _make_param(cfg)
        r1 = _clean(param, v, p)
        evals += 1
        states += 1
        transitions += 1
        fresh[ri] = r1
        tag = {"parameter": cname, "raw": repr(raw)[:120], "working_dir": wdname}
        sample = dict(tag, outcome=r1[0] + ":" + (r1[1] if r1[0] != "ok" else type(r1[1]).__name__))
        oc = r1[0] if r1[0] != "ok" else "ok:" + type(r1[1]).__name__
        outcomes["%s:%s" % (cfg[1], oc)] = outcomes.get("%s:%s" % (cfg[1], oc), 0) + 1
        if r1[0] == "raw":
            viols.append(V("C20:%s:raw-exception:%s:%s" % (cfg[1], r1[1], raw[0]), "%s.clean(%r) raised %s: %s" % (cname, raw, r1[1], r1[2]), **tag))
        from mpilot.commands import Command
        free = [x for x in ([v] if raw[0] == "freecmd" else v if isinstance(v, list) else []) if isinstance(x, Command) and x.result_name.startswith("free_")]
        exp = ("unspec",) if free else RP.expect(kind, _raw_abs(raw, base, ctx["wd"]), ctx)
        for x in free:
            if x.program is not None or x.is_finished or len(x.arguments) != len(p.commands[x.result_name[5:]].arguments):
                viols.append(V("C20:%s:raw-argument-mutated:command-object" % cfg[1], "%s.clean(%r) changed the command object it was given (program now %r)" % (cname, raw, x.program), **tag))
        if exp[0] == "unspec":
            unspec += 1
        else:
            judged += 1
            if exp[0] == "fail":
                if r1[0] == "ok":
                    viols.append(V("C20:%s:accepted-invalid:%s" % (cfg[1], raw[0]), "%s.clean(%r) returned %r, expected %s" % (cname, raw, r1[1], "/".join(exp[1])), **tag))
                elif r1[0] == "perr" and exp[1] != RP.PROGRAM_ERRORS and r1[1] not in exp[1]:
                    viols.append(V("C20:%s:wrong-error:%s" % (cfg[1], r1[1]), "%s.clean(%r) raised %s, expected %s" % (cname, raw, r1[1], "/".join(exp[1])), **tag))
                elif r1[0] == "perr" and r1[2] != 7:
                    viols.append(V("C20:%s:error-lost-lineno" % cfg[1], "%s.clean(%r, lineno=7) raised %s with lineno %r" % (cname, raw, r1[1], r1[2]), **tag))
            else:
                if r1[0] == "perr":
                    viols.append(V("C20:%s:rejected-valid:%s" % (cfg[1], raw[0]), "%s.clean(%r) raised %s, expected a value (%r)" % (cname, raw, r1[1], exp[1:]), **tag))
                elif r1[0] == "ok" and not _matches(exp, r1, p):
                    viols.append(V("C20:%s:wrong-value:%s" % (cfg[1], raw[0]), "%s.clean(%r) returned %r (%s), expected %r" % (cname, raw, r1[1], type(r1[1]).__name__, exp[1:]), **tag))
        # purity
        if vcopy is not None and _freeze(v) != _freeze(vcopy):
            viols.append(V("C20:%s:raw-argument-mutated" % cfg[1], "%s.clean(%r) changed its argument to %r" % (cname, raw, v), **tag))
        if _snapshot_program(p) != before_prog:
            viols.append(V("C20:%s:program-mutated" % cfg[1], "%s.clean(%r) changed the program (finished flags / results / arguments)" % (cname, raw), **tag))
        # repeatability on the same object
        r2 = _clean(param, v, p)
        transitions += 1
        if _fz(r2) != _fz(r1):
            viols.append(V("C20:%s:not-repeatable" % cfg[1], "%s.clean(%r) gave %r then %r" % (cname, raw, _fz(r1), _fz(r2)), **tag))
        # idempotence
        if r1[0] == "ok" and not (isinstance(kind, tuple) and kind[0] == "Path" and wdname == "rel"):
            r3 = _clean(_make_param(cfg), r1[1], p)
            transitions += 1
            if _fz(r3) != _fz(r1):
                viols.append(V("C20:%s:not-idempotent:%s" % (cfg[1], raw[0]), "%s: clean(%r) = %r but clean of that = %r" % (cname, raw, _fz(r1), _fz(r3)), **tag))
    # the process's CURRENT DIRECTORY is not a working directory: with no working directory (or an absolute one), cleaning a path gives the same
    # outcome whether or not the current directory happens to hold a file of that relative name
    if isinstance(kind, tuple) and kind[0] == "Path" and wdname in ("none", "abs"):
        here = os.getcwd()
        try:
            os.chdir(base)
            for ri, raw in enumerate(RAWS):
                if ri in skip or raw[0] != "str" or raw[1].startswith(("ABS", "WDIR")):
                    continue
                rc_ = _clean(_make_param(cfg), _mk(raw, p, base), p)
                transitions += 1
                if _fz(rc_) != _fz(fresh[ri]):
                    viols.append(V("C20:%s:depends-on-current-directory" % cfg[1], "%s.clean(%r) gives %r when the current directory holds exists.csv, %r otherwise" % (
                        cname, raw, _fz(rc_), _fz(fresh[ri])), parameter=cname, raw=repr(raw), working_dir=wdname))
        finally:
            os.chdir(here)
    # histories on one object
    sub = [i for i in range(len(RAWS)) if i not in skip and "freecmd" not in repr(RAWS[i])]  # (a new program-less object per use: nothing to compare across histories)
    for a, b in itertools.product(sub, repeat=2):
        param = _make_param(cfg)
        _clean(param, _mk(RAWS[a], p, base), p)
        rb = _clean(param, _mk(RAWS[b], p, base), p)
        states += 1
        transitions += 2
        if _fz(rb) != _fz(fresh[b]):
            viols.append(V("C20:%s:history-dependent" % cfg[1], "%s: clean(%r) after clean(%r) gave %r, on a fresh object %r" % (
                cname, RAWS[b], RAWS[a], _fz(rb), _fz(fresh[b])), parameter=cname, history=[repr(RAWS[a]), repr(RAWS[b])]))
    if tier == "thorough":
        sub3 = sub[::4]
        for a, b, c in itertools.product(sub3, repeat=3):
            param = _make_param(cfg)
            _clean(param, _mk(RAWS[a], p, base), p)
            _clean(param, _mk(RAWS[b], p, base), p)
            rc = _clean(param, _mk(RAWS[c], p, base), p)
            states += 1
            transitions += 3
            if _fz(rc) != _fz(fresh[c]):
                viols.append(V("C20:%s:history-dependent" % cfg[1], "%s: triple history changes clean(%r)" % (cname, RAWS[c]), parameter=cname))
    return {"evals": transitions, "nontrivial": states, "judged": judged, "unspecified": unspec, "viols": viols[:80], "outcomes": outcomes,
            "states": states, "transitions": transitions, "sample": sample}


def _fz(r):
    return (r[0], _freeze(r[1])) if r[0] == "ok" else r[:2]


def _tuplify(x):
    return tuple(_tuplify(y) if isinstance(y, list) else y for y in x)
