"""C02 — model results equal the evaluation of the graph, whatever the file order.

Full pipeline: Program.from_source(text, working_dir) + run() over real CSV input files.  Models = three EEMSRead sources
(float column with a missing value, integer column, second float column) followed by a DAG of k in {1, 2} (thorough: 3) built-in
data commands: every command x preset, every data input bound to previously defined results of compatible fuzziness according to
the REFERENCE signature table (fan-out, diamonds, shared intermediates, the same result twice), x file orders (canonical,
reversed, rotations; all permutations for k=1) x {no metadata, Metadata on every command} x input tables.
Oracle: mc/ref/eems.py interprets the graph on exact rationals -> expected cells of EVERY command result; all orders and the
metadata variant must give bit-identical results (differential); a well-typed model must be accepted.
"""
import contextlib
import io
import itertools
import os
from fractions import Fraction as F

import numpy

from ..core import V
from .. import numdrv as D
from .. import snapshot
from ..ref import eems as REF
from ..ref import grammar as G
from ..ref import sig as SIG

ID = "C02"
LEVEL = "exploration"
CHUNK = 1
CSV = ("mpilot.libraries.eems.basic", "mpilot.libraries.eems.csv", "mpilot.libraries.eems.fuzzy")
RULE = ("cases = (first command, preset, its inputs, table); each enumerates every second command / preset / input binding that consumes "
        "the first, renders the model in several file orders and with metadata, loads and runs it and compares every result with the "
        "reference interpreter and across orders; non-trivial = distinct (model, order, metadata, table) runs")
ASSUMPTIONS = ["values compared to 1e-9 relative; cells within 1e-9 of a discontinuity of a consumer (binary threshold, category value, mean "
               "partition) are counted unstable and not judged", "models whose reference evaluation hits an error / degenerate statistics are "
               "only required to fail or succeed alike in every order"]
TABLES = [
    {"F": [1.5, None, 0.25, 5.0], "I": [2, 0, -1, 5], "G": [0.5, 2.0, -2.0, None]},
    {"F": [None, 3.0, None, -9998.95], "I": [1, 1, 2, 2], "G": [0.25, -9999.05, 4.0, -0.5]},  # legitimate values NEAR the missing-value marker
    {"F": [0.0, 1.0, 2.0, 3.0], "I": [5, -2, 0, 1], "G": [-1.5, 0.0, 0.0, 2.0]},
    {"F": [2.0, None, 2.0, 2.0], "I": [3, 3, 3, 3], "G": [0.5, None, 0.5, 1.0]},  # constant columns: degenerate statistics
]
DISCONT = ("CvtToBinary", "NormalizeCat", "CvtToFuzzyCat", "NormalizeMeanToMid", "CvtToFuzzyMeanToMid", "ADividedByB")


def BOUND(tier):
    return ("k=1: every command x preset x input binding x all 24 orders x metadata x 3 tables; k=2: every (first, second) command pair, first "
            "preset, second command consuming the first (alone, with a base column, twice), canonical + reversed + rotated order + metadata, table 1"
            if tier == "quick" else "quick bound with all presets for k=2, 3 tables, plus k=3 chains (third command consumes the second and the first)")


def _base_cmds():
    q = lambda s: ("q", s)
    b = lambda s: ("bare", s)
    return [("F", "EEMSRead", [("InFileName", q("in.csv")), ("InFieldName", b("F")), ("MissingVal", ("int", "-9999"))]),
            ("I", "EEMSRead", [("InFileName", q("in.csv")), ("InFieldName", b("I")), ("DataType", b("Integer"))]),
            ("G", "EEMSRead", [("InFileName", q("in.csv")), ("InFieldName", b("G")), ("MissingVal", ("int", "-9999"))])]


def _pyval(v):
    if isinstance(v, bool):
        return ("bare", "true" if v else "false")
    if isinstance(v, int):
        return ("int", str(v))
    if isinstance(v, float):
        return ("dec", repr(v))
    if isinstance(v, str):
        return ("bare", v)
    if isinstance(v, list):
        return ("list", [_pyval(x) for x in v])
    raise ValueError(v)


def _bindings(cmd, avail, must=None):
    """input bindings of cmd over available results [(name, fuzzy)], optionally required to use `must`"""
    fz = SIG.input_fuzz(cmd)
    cands = [n for n, f in avail if fz == "*" or (fz == "fz") == f]
    ar = D.arity(cmd)
    if ar == "1":
        out = [(c,) for c in cands]
    elif ar == "2":
        out = list(itertools.product(cands, repeat=2))
    else:
        out = [(c,) for c in cands] + list(itertools.product(cands, repeat=2)) + [tuple(cands[:3])] * (1 if len(cands) >= 3 else 0)
    if must is not None:
        out = [o for o in out if must in o]
    return out


def _cmd_ast(name, cmd, params, ins):
    slots = SIG.result_slots(cmd)
    args = []
    if len(slots) == 2:
        args += [(slots[0][0], ("bare", ins[0])), (slots[1][0], ("bare", ins[1]))]
    elif slots[0][1]:
        args.append((slots[0][0], ("list", [("bare", i) for i in ins])))
    else:
        args.append((slots[0][0], ("bare", ins[0])))
    for k, v in params.items():
        if k == "Weights":
            v = (list(v) * 3)[:len(ins)]
        if k == "NumberToConsider":
            v = min(v, len(ins))
        args.append((k, _pyval(v)))
    return (name, cmd, args)


def _ref_eval(cmds, table):
    """reference evaluation: {name: ("ok", cells, approx) | ("err"/"degenerate"/"unspec", ...)}; stops propagating after a failure"""
    env = {"F": ("ok", [None if v is None else REF.fr(v) for v in table["F"]], False),
           "I": ("ok", [F(v) for v in table["I"]], False), "G": ("ok", [None if v is None else REF.fr(v) for v in table["G"]], False)}
    unstable = set()
    for name, cmd, params, ins in cmds:
        if any(env[i][0] != "ok" for i in ins):
            env[name] = ("blocked",)
            continue
        cols = [env[i][1] for i in ins]
        approx_in = any(env[i][2] for i in ins)
        p = dict(params)
        if "Weights" in p:
            p["Weights"] = (list(p["Weights"]) * 3)[:len(ins)]
        if "NumberToConsider" in p:
            p["NumberToConsider"] = min(p["NumberToConsider"], len(ins))
        r = REF.apply(cmd, cols, p)
        if r[0] == "ok":
            computed = any(i not in ("F", "I", "G") for i in ins)
            if cmd in DISCONT and computed and _near_discontinuity(cmd, p, cols[1] if cmd == "ADividedByB" else cols[0]):
                unstable.add(name)
            env[name] = ("ok", r[1], r[2] or approx_in)
            if any(i in unstable for i in ins):
                unstable.add(name)
        else:
            env[name] = r
    return env, unstable


def _near_discontinuity(cmd, p, cells):
    vals = [float(c) for c in cells if c is not None]
    pts = []
    if cmd == "ADividedByB":
        pts = [0.0]  # a computed denominator that is zero in exact arithmetic may be +-1e-16 in floating point
    elif cmd == "CvtToBinary":
        pts = [float(p["Threshold"])]
    elif cmd.endswith("Cat"):
        pts = [float(x) for x in p["RawValues"]]
    elif cmd.endswith("MeanToMid"):
        s = [v for v in vals if v != 0] if p["IgnoreZeros"] else vals
        pts = [sum(s) / len(s)] if s else []
        if p["IgnoreZeros"]:
            pts.append(0.0)
    for v in vals:
        for t in pts:
            if abs(v - t) < 1e-9 * max(1.0, abs(t)):
                # exactly representable coincidences are stable only for base data; computed data may differ in the last bit
                return True
    return False


def cases(tier):
    base = [("F", False), ("I", False), ("G", False)]
    for ti in range(len(TABLES)):
        for cmd in SIG.DATA_COMMANDS:
            if SIG.input_fuzz(cmd) == "fz":
                continue
            for pi in range(len(D.presets_small(cmd, 2))):
                yield ("k1", cmd, pi, ti)
    # degenerate table (constant columns) for two-command models: first preset, the second command consumes the first and a base column
    for cmd in SIG.DATA_COMMANDS:
        if SIG.input_fuzz(cmd) != "fz":
            for ins in (("I",), ("F",), ("I", "F"), ("G", "I")):
                if ins in [tuple(b) for b in _bindings(cmd, base)]:
                    yield ("k2", cmd, 0, list(ins), 3, "quick")
    for cmd in SIG.DATA_COMMANDS:
        if SIG.input_fuzz(cmd) == "fz":
            continue
        presets = range(len(D.presets_small(cmd, 2))) if tier == "thorough" else (0,)
        for pi in presets:
            for bi, ins in enumerate(_bindings(cmd, base)):
                if tier == "quick" and len(ins) > 1 and ins not in (("F", "I"), ("I", "F"), ("F", "G"), ("F", "F"), ("F", "I", "G")):
                    continue
                for ti in (range(len(TABLES)) if tier == "thorough" else (0,)):
                    yield ("k2", cmd, pi, list(ins), ti, tier)
    n = len(_fuzzy_diamonds())
    for lo in range(0, n, 8):
        yield ("diamond", lo, min(n, lo + 8), 0)
    for cmd in SIG.DATA_COMMANDS:
        if SIG.input_fuzz(cmd) != "fz":
            yield ("repair", cmd)
    yield ("long",)
    for cmd in INT_PRESETS:
        yield ("k2i", cmd)
    for cmd in SIG.DATA_COMMANDS:
        if SIG.input_fuzz(cmd) != "fz":
            yield ("netcdf", cmd)


def _fuzzy_diamonds():
    """two fuzzy intermediates with DIFFERENT missing cells feeding a fuzzy n-ary operator, plus another consumer of one of them"""
    fz_nary = [c for c in SIG.DATA_COMMANDS if SIG.input_fuzz(c) == "fz" and D.arity(c) == "n"]
    fz_unary = [c for c in SIG.DATA_COMMANDS if SIG.input_fuzz(c) == "fz" and D.arity(c) == "1"] + ["FuzzyOr", "FuzzyUnion", "Copy"]
    out = []
    for op in fz_nary:
        for pi in range(len(D.presets_small(op, 2))):
            for order in (("R1", "R2"), ("R2", "R1")):
                for c4 in fz_unary:
                    for target in ("R1", "R2"):
                        out.append((op, pi, order, c4, target))
    return out


def _write_table(work, table):
    with open(os.path.join(work, "in.csv"), "w") as f:
        f.write("F,I,G\n")
        for a, b, c in zip(table["F"], table["I"], table["G"]):
            f.write("%s,%d,%s\n" % ("-9999" if a is None else repr(a), b, "-9999" if c is None else repr(c)))


def _run_text(text, work):
    from mpilot.exceptions import MPilotError
    from mpilot.program import Program

    try:
        with contextlib.redirect_stdout(io.StringIO()), numpy.errstate(all="ignore"):
            p = Program.from_source(text, libraries=CSV, working_dir=work)
            p.run()
        return ("ok", {n: c.result for n, c in p.commands.items()})
    except MPilotError as exc:
        return ("err", type(exc).__name__, str(exc).split("\n")[0][:160])
    except SyntaxError as exc:
        return ("err", "SyntaxError", str(exc))


def _sig(a):
    if isinstance(a, numpy.ndarray):
        return (a.shape, a.dtype.str, numpy.ma.getmaskarray(a).tobytes(), numpy.where(numpy.ma.getmaskarray(a), 0, numpy.ma.getdata(a)).tobytes(),
                isinstance(a, numpy.ma.MaskedArray))
    return repr(a)


def _orders(n, all_perms):
    idx = list(range(n))
    if all_perms == "tail":
        return [tuple(idx[:-3]) + t for t in itertools.permutations(idx[-3:])] + [tuple(reversed(idx))]
    if all_perms:
        return list(itertools.permutations(idx))
    outs = [tuple(idx), tuple(reversed(idx)), tuple(idx[2:] + idx[:2]), tuple(idx[-1:] + idx[:-1])]
    seen, res = set(), []
    for o in outs:
        if o not in seen:
            seen.add(o)
            res.append(o)
    return res


def _check_model(cmds, table, work, all_perms, viols, outcomes, counters, tagbase):
    """cmds: [(name, cmd, params, ins)] after the three reads"""
    prog = _base_cmds() + [_cmd_ast(n, c, p, i) for n, c, p, i in cmds]
    env, unstable = _ref_eval(cmds, table)
    wellformed = all(env[n][0] == "ok" for n, _, _, _ in cmds)
    desc = " ; ".join("%s=%s%r%s" % (n, c, tuple(i), "" if not p else repr(p)) for n, c, p, i in cmds)
    base_sig = None
    runs = 0
    for oi, order in enumerate(_orders(len(prog), all_perms)):
        for meta in ((False, True, "args-reversed") if oi == 0 else (False,)):
            pr = [prog[i] for i in order]
            if meta == "args-reversed":
                pr = [(n, c, list(reversed(a))) for n, c, a in pr]  # the order in which named arguments are written means nothing
            elif meta:
                pr = [(n, c, a + [("Metadata", ("tuple", [("bare", "DisplayName", ("q", "x " + n)), ("bare", "Note", ("q", "m"))]))]) for n, c, a in pr]
            text = G.render(G.items_of(pr))[0]
            res = _run_text(text, work)
            runs += 1
            tag = dict(tagbase, model=desc, order=list(order), metadata=meta, text=text)
            if res[0] == "ok":
                sig = ("ok", tuple(sorted((n, _sig(a)) for n, a in res[1].items())))
            else:
                sig = ("err", res[1])
            if base_sig is None:
                base_sig = sig
                first = res
                # judge against the reference
                if wellformed:
                    counters["judged"] += 1
                    if res[0] == "err":
                        viols.append(V("C02:%s:well-typed-model-fails:%s" % (cmds[-1][1], res[1]), "model [%s] fails with %s: %s" % (desc, res[1], res[2]), **tag))
                    else:
                        for n, c, p, ins in cmds:
                            if n in unstable:
                                counters["unstable"] += 1
                                continue
                            ref = env[n]
                            a = res[1][n]
                            shape = (len(table["F"]),)
                            for kind, msg in D.compare(a, ref[1], True, shape):
                                viols.append(V("C02:%s:%s" % (c, kind), "result %s of [%s]: %s" % (n, desc, msg), **tag))
                                break
                else:
                    counters["unspecified"] += 1
                    kinds = sorted({env[n][0] for n, _, _, _ in cmds if env[n][0] != "ok"})
                    if "err" in kinds and len([1 for n, _, _, _ in cmds if env[n][0] == "err"]) == 1 and res[0] == "ok":
                        bad = [n for n, _, _, _ in cmds if env[n][0] == "err"][0]
                        viols.append(V("C02:%s:expected-%s" % ([c for n, c, _, _ in cmds if n == bad][0], env[bad][1]), "model [%s] ran although %s must fail with %s" % (desc, bad, env[bad][1]), **tag))
            else:
                if sig != base_sig:
                    what = "writing the arguments in reversed order" if meta == "args-reversed" else "metadata" if meta else "file order %r" % (order,)
                    viols.append(V("C02:order-dependence:%s" % ("argument-order" if meta == "args-reversed" else "metadata" if meta else "file-order"), "model [%s]: %s changes the outcome: %s vs %s" % (
                        desc, what, _brief(sig), _brief(base_sig)), **tag))
            if res[0] == "ok":
                # whatever else the model does, the columns that were read must still be what the file says after the run
                for n in ("F", "I", "G"):
                    want = env[n][1]
                    for kind, msg in D.compare(res[1][n], want, False, (len(want),)):
                        viols.append(V("C02:EEMSRead:%s-after-run" % kind, "column %s after running [%s]: %s" % (n, desc, msg), **tag))
                        break
            k = "%s:%s" % (cmds[-1][1], res[0] if res[0] == "ok" else res[1])
            outcomes[k] = outcomes.get(k, 0) + 1
    return runs


def _brief(sig):
    return sig[0] if sig[0] == "ok" else "%s %s" % sig[:2]


NETCDF = ("mpilot.libraries.eems.basic", "mpilot.libraries.eems.netcdf", "mpilot.libraries.eems.fuzzy")


def _run_netcdf(case):
    """the same oracle over the NetCDF library set: a float grid with missing cells and a grid read with DataType = Fuzzy whose values lie in
    the accepted 1 % tolerance around [-1, +1] (and must therefore be limited to the range); every non-fuzzy-input command over them, in
    canonical and reversed file order"""
    from netCDF4 import Dataset
    from mpilot.exceptions import MPilotError
    from mpilot.program import Program

    _, cmd = case
    work = snapshot.scratch_dir("c02n_")
    viols, outcomes = [], {}
    evals = judged = 0
    sample = None
    A = [1.5, None, 0.25, 5.0]
    Z = [-1.01, 0.25, 1.015, 0.5]
    try:
        with Dataset(os.path.join(work, "in.nc"), "w") as ds:
            ds.createDimension("y", 2)
            ds.createDimension("x", 2)
            ds.createVariable("y", "f8", ("y",))[:] = [0.0, 1.0]
            ds.createVariable("x", "f8", ("x",))[:] = [0.0, 1.0]
            va = ds.createVariable("A", "f8", ("y", "x"), fill_value=-9999.0)
            va[:] = numpy.ma.MaskedArray([[1.5, 0.0], [0.25, 5.0]], mask=[[False, True], [False, False]])
            ds.createVariable("Z", "f8", ("y", "x"))[:] = numpy.array(Z).reshape(2, 2)
        q = lambda s_: ("q", s_)
        b = lambda s_: ("bare", s_)
        base = [("A", "EEMSRead", [("InFileName", q("in.nc")), ("InFieldName", b("A"))]),
                ("Z", "EEMSRead", [("InFileName", q("in.nc")), ("InFieldName", b("Z")), ("DataType", b("Fuzzy"))])]
        env0 = {"A": [None if v is None else REF.fr(v) for v in A], "Z": [REF.clamp(REF.fr(v)) for v in Z]}
        for pi, params in enumerate(D.presets_small(cmd, 2)):
            for ins in _bindings(cmd, [("A", False), ("Z", False)]):
                p_ = dict(params)
                if "Weights" in p_:
                    p_["Weights"] = (list(p_["Weights"]) * 3)[:len(ins)]
                ref = REF.apply(cmd, [env0[i] for i in ins], p_)
                prog = base + [_cmd_ast("R", cmd, params, ins)]
                first = None
                for order in ((0, 1, 2), (2, 1, 0), (1, 2, 0)):
                    text = G.render(G.items_of([prog[i] for i in order]))[0]
                    try:
                        with contextlib.redirect_stdout(io.StringIO()), numpy.errstate(all="ignore"):
                            p = Program.from_source(text, libraries=NETCDF, working_dir=work)
                            p.run()
                        res = ("ok", {n_: c.result for n_, c in p.commands.items()})
                    except MPilotError as exc:
                        res = ("err", type(exc).__name__, str(exc).split("\n")[0][:120])
                    evals += 1
                    tag = {"model": "R=%s%r %r" % (cmd, ins, params), "order": list(order), "text": text, "libraries": "netcdf"}
                    sample = tag
                    sig = ("ok", tuple(sorted((n_, _sig(a)) for n_, a in res[1].items()))) if res[0] == "ok" else ("err", res[1])
                    if first is None:
                        first = sig
                        if res[0] == "ok":
                            for n_, want in (("A", env0["A"]), ("Z", env0["Z"])):
                                for kind, msg in D.compare(res[1][n_].ravel(), want, True, (4,)):
                                    viols.append(V("C02:netcdf.EEMSRead:%s" % kind, "grid %s read through the NetCDF library: %s" % (n_, msg), **tag))
                                    break
                            if ref[0] == "ok":
                                judged += 1
                                for kind, msg in D.compare(res[1]["R"].ravel(), ref[1], True, (4,)):
                                    viols.append(V("C02:%s:%s:netcdf" % (cmd, kind), "result of [%s] over NetCDF data: %s" % (tag["model"], msg), **tag))
                                    break
                        elif ref[0] == "ok":
                            judged += 1
                            viols.append(V("C02:%s:well-typed-model-fails:%s:netcdf" % (cmd, res[1]), "model [%s] fails with %s: %s" % (tag["model"], res[1], res[2]), **tag))
                    elif sig != first:
                        viols.append(V("C02:order-dependence:file-order:netcdf", "model [%s]: file order %r changes the outcome" % (tag["model"], order), **tag))
                    k = "netcdf:%s:%s" % (cmd, res[0] if res[0] == "ok" else res[1])
                    outcomes[k] = outcomes.get(k, 0) + 1
            if len(viols) > 30:
                del viols[30:]
    finally:
        import shutil
        shutil.rmtree(work, ignore_errors=True)
    return {"evals": max(evals, 1), "nontrivial": evals, "judged": judged, "viols": viols, "outcomes": outcomes, "sample": sample}


def _run_repair(case):
    """histories on ONE program object: the first evaluation fails for a reason outside the model (a non-numeric cell in the data file),
    the file is repaired, the same program is evaluated again: its results must be the value of the graph on the repaired table.
    Every column as the faulty one x {run(), result of the last command} as the failing step x 4 file orders x every input binding."""
    from mpilot.exceptions import MPilotError
    from mpilot.program import Program

    _, cmd = case
    table = TABLES[0]
    viols, outcomes = [], {}
    counters = {"judged": 0}
    evals = 0
    sample = None
    work = snapshot.scratch_dir("c02_")
    base = [("F", False), ("I", False), ("G", False)]
    try:
        params = D.presets_small(cmd, 2)[0]
        fz1 = SIG.COMMANDS[cmd]["out"][1]
        follower = ("FuzzyNot", {}) if fz1 else ("Copy", {})
        for ins in _bindings(cmd, base):
            cmds = [("R1", cmd, params, ins), ("R2", follower[0], follower[1], ("R1",))]
            env, unstable = _ref_eval(cmds, table)
            if not all(env[n][0] == "ok" for n, _, _, _ in cmds):
                continue
            prog = _base_cmds() + [_cmd_ast(n, c, p, i) for n, c, p, i in cmds]
            desc = " ; ".join("%s=%s%r%s" % (n, c, tuple(i), "" if not p else repr(p)) for n, c, p, i in cmds)
            for order in _orders(len(prog), False):
                text = G.render(G.items_of([prog[i] for i in order]))[0]
                for badcol in ("F", "I", "G"):
                    for first_step in ("run", "result"):
                        _write_table(work, table)
                        path = os.path.join(work, "in.csv")
                        lines = open(path).read().split("\n")
                        cells = lines[2].split(",")
                        cells["FIG".index(badcol)] = "n/a"
                        lines[2] = ",".join(cells)
                        open(path, "w").write("\n".join(lines))
                        tag = {"model": desc, "order": list(order), "text": text, "faulty_column": badcol, "first_step": first_step}
                        sample = tag
                        evals += 1
                        with contextlib.redirect_stdout(io.StringIO()), numpy.errstate(all="ignore"):
                            p = Program.from_source(text, libraries=CSV, working_dir=work)
                            try:
                                if first_step == "run":
                                    p.run()
                                else:
                                    p.commands["R2"].result
                                failed = False
                            except MPilotError:
                                failed = True
                            if not failed and first_step == "result" and badcol not in ins:
                                pass  # the faulty column is not needed for R2: no failure yet
                            elif not failed:
                                outcomes["repair:first-step-did-not-fail"] = outcomes.get("repair:first-step-did-not-fail", 0) + 1
                                continue  # (reading a non-numeric cell is C17's business)
                            _write_table(work, table)
                            counters["judged"] += 1
                            try:
                                p.run()
                                res = {n: c.result for n, c in p.commands.items()}
                            except Exception as exc:
                                viols.append(V("C02:after-repair:raised:%s" % type(exc).__name__,
                                               "model [%s]: first %s failed on a bad cell in column %s; after repairing the file the same program raises %s: %s" % (
                                                   desc, first_step, badcol, type(exc).__name__, str(exc).split("\n")[0][:120]), **tag))
                                continue
                        bad = False
                        for n in ("F", "I", "G", "R1", "R2"):
                            if n in unstable:
                                continue
                            want = env[n][1]
                            for kind, msg in D.compare(res[n], want, n.startswith("R"), (len(table["F"]),)):
                                viols.append(V("C02:%s:after-repair:%s" % (cmd if n.startswith("R") else "EEMSRead", kind),
                                               "result %s of [%s] after failure and repair: %s" % (n, desc, msg), **tag))
                                bad = True
                                break
                        k = "repair:%s" % ("differs" if bad else "ok")
                        outcomes[k] = outcomes.get(k, 0) + 1
            if len(viols) > 30:
                del viols[30:]
    finally:
        import shutil
        shutil.rmtree(work, ignore_errors=True)
    return {"evals": max(evals, 1), "nontrivial": evals, "judged": counters["judged"], "unspecified": 0, "unstable": 0, "viols": viols, "outcomes": outcomes, "sample": sample}


# value-list parameters written with INTEGER literals only (1, 0, -1 instead of 1.0, 0.0, -1.0): how a number is spelled is not its meaning
INT_PRESETS = {
    "NormalizeCat": {"RawValues": [0, 2, 5], "NormalValues": [1, 0, 1], "DefaultNormalValue": 0},
    "CvtToFuzzyCat": {"RawValues": [0, 2, 5], "FuzzyValues": [1, 0, -1], "DefaultFuzzyValue": 0},
    "NormalizeCurve": {"RawValues": [-1, 2, 5], "NormalValues": [0, 1, 0]},
    "CvtToFuzzyCurve": {"RawValues": [-1, 2, 5], "FuzzyValues": [-1, 1, 0]},
    "NormalizeMeanToMid": {"IgnoreZeros": False, "NormalValues": [0, 0, 1, 1, 1]},
    "CvtToFuzzyMeanToMid": {"IgnoreZeros": False, "FuzzyValues": [-1, -1, 0, 1, 1]},
    "NormalizeCurveZScore": {"ZScoreValues": [-1, 0, 1], "NormalValues": [0, 1, 0]},
    "CvtToFuzzyCurveZScore": {"ZScoreValues": [-1, 0, 1], "FuzzyValues": [-1, 0, 1]},
    "CvtToBinary": {"Threshold": 1, "Direction": "LowToHigh"},
    "Normalize": {"StartVal": 0, "EndVal": 1},
    "CvtToFuzzy": {"TrueThreshold": 5, "FalseThreshold": 0},
}


def _run_k2i(case):
    """first command with all-integer parameter literals on an integer column and on a float column, second command = EVERY command that
    can consume it (alone, as first and as second input)"""
    _, cmd1 = case
    viols, outcomes = [], {}
    counters = {"judged": 0, "unspecified": 0, "unstable": 0}
    evals = 0
    sample = None
    work = snapshot.scratch_dir("c02_")
    base = [("F", False), ("I", False), ("G", False)]
    try:
        for ti in (0, 2):
            table = TABLES[ti]
            _write_table(work, table)
            p1 = INT_PRESETS[cmd1]
            fz1 = SIG.COMMANDS[cmd1]["out"][1]
            for src in ("I", "F"):
                avail = base + [("R1", fz1)]
                for cmd2 in SIG.DATA_COMMANDS:
                    binds = [b for b in _bindings(cmd2, avail, must="R1") if len(b) == 1 or b in (("R1", "R1"),) or (len(b) == 2 and "R1" in b and (b[0] in ("I", "F") or b[1] in ("I", "F")))]
                    if SIG.input_fuzz(cmd2) == "fz":
                        binds = [b for b in _bindings(cmd2, avail + [("Z", True)], must="R1") if len(b) <= 2]
                    for p2 in D.presets_small(cmd2, 2)[:1]:
                        for ins2 in binds:
                            cmds = [("R1", cmd1, p1, (src,))]
                            if "Z" in ins2:
                                cmds.append(("Z", "CvtToFuzzy", {"TrueThreshold": 5.5, "FalseThreshold": -2.5}, ("G",)))
                            cmds.append(("R2", cmd2, p2, ins2))
                            evals += _check_model(cmds, table, work, False, viols, outcomes, counters, {"table": ti, "family": "integer-literals"})
                            sample = {"model": "R1=%s(%s) %r ; R2=%s%r" % (cmd1, src, p1, cmd2, ins2), "table": ti}
                if len(viols) > 40:
                    del viols[40:]
    finally:
        import shutil
        shutil.rmtree(work, ignore_errors=True)
    return {"evals": max(evals, 1), "nontrivial": evals, "judged": counters["judged"], "unspecified": counters["unspecified"], "unstable": counters["unstable"],
            "viols": viols, "outcomes": outcomes, "sample": sample}


def _run_long(case):
    """a LONG table (named sizes: 30 and 1000 rows) with ONE column of decimals: every non-fuzzy-input command on the single column"""
    viols, outcomes = [], {}
    counters = {"judged": 0, "unspecified": 0, "unstable": 0}
    evals = 0
    sample = None
    work = snapshot.scratch_dir("c02_")
    try:
        for nrows in (30, 1000):
            col = [float((r * 37) % 89) + 0.515 for r in range(nrows)]
            col[5] = None
            with open(os.path.join(work, "one.csv"), "w") as f:
                f.write("F\n" + "".join("%s\n" % ("-9999" if v is None else repr(v)) for v in col))
            table = {"F": col, "I": [0] * nrows, "G": [0.0] * nrows}
            read = ("F", "EEMSRead", [("InFileName", ("q", "one.csv")), ("InFieldName", ("bare", "F")), ("MissingVal", ("int", "-9999"))])
            for cmd in SIG.DATA_COMMANDS:
                if SIG.input_fuzz(cmd) == "fz":
                    continue
                ins = ("F", "F") if D.arity(cmd) == "2" else ("F",)
                params = D.presets_small(cmd, len(ins))[0]
                cmds = [("R1", cmd, params, ins)]
                env, unstable = _ref_eval(cmds, table)
                text = G.render(G.items_of([read, _cmd_ast("R1", cmd, params, ins)]))[0]
                res = _run_text(text, work)
                evals += 1
                tag = {"model": "F = EEMSRead(one.csv: %d rows, one column); R1 = %s%r %r" % (nrows, cmd, ins, params), "text": text}
                sample = tag
                if env["R1"][0] != "ok" or "R1" in unstable:
                    counters["unspecified"] += 1
                    continue
                counters["judged"] += 1
                if res[0] == "err":
                    viols.append(V("C02:long-table:model-fails:%s" % res[1], "model on a %d-row single-column table fails with %s: %s" % (nrows, res[1], res[2]), **tag))
                    continue
                for n in ("F", "R1"):
                    for kind, msg in D.compare(res[1][n], env[n][1], n == "R1", (nrows,)):
                        viols.append(V("C02:long-table:%s:%s" % ("EEMSRead" if n == "F" else cmd, kind), "result %s on a %d-row single-column table: %s" % (n, nrows, msg), **tag))
                        break
                outcomes["long:ok"] = outcomes.get("long:ok", 0) + 1
    finally:
        import shutil
        shutil.rmtree(work, ignore_errors=True)
    return {"evals": max(evals, 1), "nontrivial": evals, "judged": counters["judged"], "unspecified": counters["unspecified"], "unstable": 0,
            "viols": viols[:30], "outcomes": outcomes, "sample": sample}


def run(case):
    case = tuple(case)
    if case[0] == "long":
        return _run_long(case)
    if case[0] == "k2i":
        return _run_k2i(case)
    if case[0] == "netcdf":
        return _run_netcdf(case)
    if case[0] == "repair":
        return _run_repair(case)
    viols, outcomes = [], {}
    counters = {"judged": 0, "unspecified": 0, "unstable": 0}
    evals = 0
    sample = None
    work = snapshot.scratch_dir("c02_")
    base = [("F", False), ("I", False), ("G", False)]
    try:
        if case[0] == "k1":
            _, cmd, pi, ti = case
            table = TABLES[ti]
            _write_table(work, table)
            params = D.presets_small(cmd, 2)[pi]
            for ins in _bindings(cmd, base):
                cmds = [("R1", cmd, params, ins)]
                evals += _check_model(cmds, table, work, True, viols, outcomes, counters, {"table": ti})
                sample = {"model": "R1=%s%r %r" % (cmd, ins, params), "table": ti, "orders": "all 24 permutations + metadata"}
                if len(viols) > 40:
                    del viols[40:]
        elif case[0] == "diamond":
            _, lo, hi, ti = case
            table = TABLES[ti]
            _write_table(work, table)
            for op, pi, order, c4, target in _fuzzy_diamonds()[lo:hi]:
                p4 = D.presets_small(c4, 1)[0] if c4 in SIG.COMMANDS else {}
                cmds = [("R1", "CvtToFuzzy", {"TrueThreshold": 5, "FalseThreshold": 0}, ("F",)),
                        ("R2", "CvtToFuzzy", {"TrueThreshold": 2, "FalseThreshold": -2}, ("G",)),
                        ("R3", op, D.presets_small(op, 2)[pi], order),
                        ("R4", c4, p4, (target,))]
                evals += _check_model(cmds, table, work, "tail", viols, outcomes, counters, {"table": ti})
                sample = {"model": "R1=CvtToFuzzy(F); R2=CvtToFuzzy(G); R3=%s%r; R4=%s(%s)" % (op, order, c4, target), "orders": "all orders of the last three lines + reversed"}
                if len(viols) > 40:
                    del viols[40:]
        else:
            _, cmd1, pi1, ins1, ti, tier = case
            table = TABLES[ti]
            _write_table(work, table)
            p1 = D.presets_small(cmd1, 2)[pi1]
            fz1 = SIG.COMMANDS[cmd1]["out"][1]
            avail = base + [("R1", fz1)]
            for cmd2 in SIG.DATA_COMMANDS:
                presets2 = D.presets_small(cmd2, 2) if tier == "thorough" else D.presets_small(cmd2, 2)[:1]
                binds = _bindings(cmd2, avail, must="R1")
                if tier == "quick":
                    binds = [b for b in binds if len(b) == 1 or b in (("R1", "F"), ("F", "R1"), ("R1", "R1"), ("I", "R1"), ("R1", "I"))]
                for p2 in presets2:
                    for ins2 in binds:
                        cmds = [("R1", cmd1, p1, tuple(ins1)), ("R2", cmd2, p2, ins2)]
                        evals += _check_model(cmds, table, work, False, viols, outcomes, counters, {"table": ti})
                        sample = {"model": "R1=%s%r ; R2=%s%r" % (cmd1, tuple(ins1), cmd2, ins2), "table": ti}
                        if tier == "thorough" and cmd2 in ("CvtToFuzzy", "Sum", "Normalize", "FuzzyNot", "Copy"):
                            fz2 = SIG.COMMANDS[cmd2]["out"][1]
                            av3 = avail + [("R2", fz2)]
                            for cmd3 in SIG.DATA_COMMANDS:
                                for ins3 in [b for b in _bindings(cmd3, av3, must="R2") if len(b) == 1 or "R1" in b][:3]:
                                    c3 = cmds + [("R3", cmd3, D.presets_small(cmd3, 2)[0], ins3)]
                                    evals += _check_model(c3, table, work, False, viols, outcomes, counters, {"table": ti})
                if len(viols) > 40:
                    del viols[40:]
    finally:
        import shutil
        shutil.rmtree(work, ignore_errors=True)
    return {"evals": max(evals, 1), "nontrivial": evals, "judged": counters["judged"], "unspecified": counters["unspecified"], "unstable": counters["unstable"],
            "viols": viols, "outcomes": outcomes, "sample": sample}
