"""C06 — fuzzy-logic operators compute the EEMS definitions and obey their algebra.

Packed lattice mode: all tuples of F9 u {MISSING} for n<=3 inputs (10^n cells in one call), F9 for n=4, F5 u {MISSING}
for n=5; every admissible k / Truest|Falsest, weight vectors {1/2,1,2,3}^n (n<=3) + fixed vectors (n=4,5).  Because the
full product lattice contains every permutation of every tuple, input-order invariance is decided by the comparison
with the (symmetric) reference; explicit input permutations are run in addition in small-array mode.
Small-array mode: every array of <=3 cells over a 4-value lattice + MISSING with every mask form.
"""
import itertools
from fractions import Fraction as F

import numpy

from ..core import V
from .. import numdrv as D
from ..ref import eems as REF

ID = "C06"
LEVEL = "exploration"
CHUNK = 1
RULE = ("cases = (operator, n inputs, preset, lattice); each case evaluates every tuple of the lattice in one packed call and "
        "compares every cell with the exact rational definition, then checks the algebraic laws on the implementation's own "
        "outputs; small-array cases enumerate every array of <=3 cells with every mask form and every input order; "
        "non-trivial = distinct (operator, preset, cell tuple) evaluations with >=1 non-missing input")
ASSUMPTIONS = ["lattice step 1/4 (dyadic: sums, means of 2/4, min/max exact in float64); other quotients compared to 1e-9",
               "FuzzyXOr with one input, k<=0 or fractional k, zero weight sum are UNSPECIFIED"]
OPS = ("FuzzyOr", "FuzzyAnd", "FuzzyNot", "FuzzyUnion", "FuzzyWeightedUnion", "FuzzySelectedUnion", "FuzzyXOr")
F9 = [F(i, 4) for i in range(-4, 5)]
F5 = [F(i, 2) for i in range(-2, 3)]
F3 = [F(-1), F(1, 4), F(1)]
M = None


def BOUND(tier):
    return ("n<=3 over F9+MISSING exhaustively, n=4 over F9, n=5 over F5+MISSING; all k, Truest/Falsest; weights {1/2,1,2,3}^n n<=3; "
            "small arrays (n inputs x size cells <= 4, thorough <= 6) over 4 values+MISSING x all mask forms" + ("" if tier == "quick" else
            "; thorough adds n=4 over F9+MISSING, n=5 over F9 (59049 cells), n=6 over F5, weights incl. negatives"))


def _lattice(name):
    return {"F9M": F9 + [M], "F9": F9, "F5M": F5 + [M], "F5": F5, "F3M": F3 + [M], "I3M": [F(-1), F(0), F(1), M]}[name]


def _presets(op, n, tier):
    if op == "FuzzySelectedUnion":
        return [{"TruestOrFalsest": tf, "NumberToConsider": k} for tf in ("Truest", "Falsest") for k in range(1, n + 2)] + \
               [{"TruestOrFalsest": "Neither", "NumberToConsider": 1}]
    if op == "FuzzyWeightedUnion":
        ws = [0, F(1, 2), 1, 2, 3] if n <= 2 else [F(1, 2), 1, 2, 3]
        if n <= 3:
            vecs = [list(v) for v in itertools.product(ws, repeat=n)]
        else:
            vecs = [[1] * n, [F(1, 2), 1, 2, 3, 1][:n], [3, 2, 1, 1, F(1, 2)][:n]]
        if n >= 3:
            vecs += [[(0 if i == z else 1 + i) for i in range(n)] for z in range(n)]  # a zero weight at each position
        if n >= 3:
            vecs += [[0, 0, 1, 3, 2][:n], [0] * (n - 1) + [1], [1, 0, 0, 2, 0][:n]]  # several inputs switched off, at the front too: the total is positive
        if n >= 2:
            vecs += [[3, -1, 1, 1, 1][:n], [-1, 4, 1, 1, 1][:n], [2, F(-1, 2), 1, 1, 1][:n]]  # a negative weight (the divisor stays their plain sum)
        if tier == "thorough":
            vecs += [[(-1 if i == 0 else 2) for i in range(n)], [0] * (n - 1) + [1]]
        vecs.append([1] * (n + 1))  # mismatched count
        return [{"Weights": [float(w) if isinstance(w, F) else w for w in v]} for v in vecs]
    return [{}]


def cases(tier):
    for op in OPS:
        ns = (1,) if op == "FuzzyNot" else (1, 2, 3, 4, 5)
        for n in ns:
            lat = {1: "F9M", 2: "F9M", 3: "F9M", 4: "F9", 5: "F5M"}[n]
            for pi, _ in enumerate(_presets(op, n, tier)):
                yield ("packed", op, n, lat, pi, tier)
                if n <= 3:
                    yield ("packed32", op, n, lat, pi, tier)  # single-precision inputs
                    yield ("packedint", op, n, "I3M", pi, tier)  # fuzzy values held in integer arrays (-1, 0, +1: e.g. a binary layer)
                    if n >= 2:
                        yield ("packedmix", op, n, "mix", pi, tier)
        if tier == "thorough" and op != "FuzzyNot":
            for pi, _ in enumerate(_presets(op, 4, tier)):
                yield ("packed", op, 4, "F9M", pi, tier)
            for pi, _ in enumerate(_presets(op, 5, tier)):
                yield ("packed", op, 5, "F9", pi, tier)
            for pi, _ in enumerate(_presets(op, 6, tier)):
                yield ("packed", op, 6, "F5", pi, tier)
    for n in (1, 2, 3, 4, 5):
        yield ("laws", n, {1: "F9M", 2: "F9M", 3: "F9M", 4: "F9", 5: "F5M"}[n], tier)
    for op in OPS:
        for n in ((1,) if op == "FuzzyNot" else (1, 2, 3)):
            for size in (1, 2, 3):
                if n * size > (4 if tier == "quick" else 6):
                    continue
                for first in range(5 ** size):
                    yield ("small", op, n, size, first, tier)


def _judge(op, params, arrays_cells, res, viols, tag, counters, tol=1e-9):
    """compare one execution with the reference"""
    ref = REF.apply(op, arrays_cells, params)
    ncell = len(arrays_cells[0]) if arrays_cells else 0
    if ref[0] == "unspec":
        counters["unspecified"] += ncell
        return "unspec"
    if ref[0] == "err":
        counters["judged"] += 1
        if res[0] == "err" and D.error_name(res[1]) == ref[1]:
            return "err:" + ref[1]
        if res[0] == "err" and D.error_name(res[1]) in ("MismatchedWeights", "InvalidNumberToConsider", "InvalidTruestOrFalsest", "EmptyInputs"):
            return "err:" + D.error_name(res[1])  # two conditions at once: either specific error is fine
        got = D.error_name(res[1]) if res[0] == "err" else "a result"
        viols.append(V("C06:%s:expected-%s" % (op, ref[1]), "%s %r: expected %s, got %s" % (op, params, ref[1], got), **tag))
        return "bad"
    counters["judged"] += ncell
    if res[0] == "err":
        viols.append(V("C06:%s:raised:%s" % (op, D.error_name(res[1])), "%s %r raised %r" % (op, params, res[1]), **tag))
        return "raised"
    for kind, msg in D.compare(res[1], ref[1], ref[2], (ncell,), tol):
        viols.append(V("C06:%s:%s" % (op, kind), "%s n=%d %r: %s (inputs at that cell: %s)" % (
            op, len(arrays_cells), params, msg, _cell_inputs(arrays_cells, msg)), **tag))
    return "ok"


def _cell_inputs(arrays_cells, msg):
    try:
        i = int(msg.split()[1])
        return [str(a[i]) for a in arrays_cells]
    except Exception:
        return "?"


def _packedmix(case):
    """inputs of MIXED element type: every non-uniform assignment of {integer, float} to the inputs, integer layers over {-1, 0, 1, MISSING},
    float layers over F5 + MISSING"""
    _, op, n, _lat, pi, tier = case
    params = _presets(op, n, tier)[pi]
    viols = []
    counters = {"judged": 0, "unspecified": 0}
    outcomes = {}
    evals = nontriv = 0
    for dts in itertools.product(("int", "float"), repeat=n):
        if len(set(dts)) == 1:
            continue
        lats = [_lattice("I3M") if d == "int" else _lattice("F5M") for d in dts]
        tuples = list(itertools.product(*lats))
        cols = [[t[i] for t in tuples] for i in range(n)]
        arrays = [D.mk_array(c, dtype=d) for c, d in zip(cols, dts)]
        res = D.execute(op, arrays, params)
        tag = {"op": op, "n": n, "params": params, "dtypes": list(dts)}
        nv = len(viols)
        oc = _judge(op, params, cols, res, viols, tag, counters)
        for v in viols[nv:]:
            v["key"] += ":mixed-element-types"
        outcomes["%s:mix:%s" % (op, oc)] = outcomes.get("%s:mix:%s" % (op, oc), 0) + 1
        evals += len(tuples)
        nontriv += sum(1 for t in tuples if any(x is not None for x in t))
    return {"evals": max(evals, 1), "nontrivial": nontriv, "judged": counters["judged"], "unspecified": counters["unspecified"], "viols": viols[:30], "outcomes": outcomes,
            "sample": {"op": op, "n": n, "params": params, "dtypes": "every non-uniform int/float assignment"}}


def _packed(case):
    kind_, op, n, lat, pi, tier = case
    if kind_ == "packedmix":
        return _packedmix(case)
    dt_ = "float32" if kind_ == "packed32" else "int" if kind_ == "packedint" else "float"
    L = _lattice(lat)
    params = _presets(op, n, tier)[pi]
    tuples = list(itertools.product(L, repeat=n))
    cols = [[t[i] for t in tuples] for i in range(n)]
    viols = []
    counters = {"judged": 0, "unspecified": 0}
    outcomes = {}
    forms = ("nomask", "false") if M not in L else ("auto",)
    for form in forms:
        arrays = [D.mk_array(c, maskform=form, dtype=dt_) for c in cols]
        res = D.execute(op, arrays, params)
        tag = {"op": op, "n": n, "lattice": lat, "params": params, "maskform": form, "dtype": dt_}
        oc = _judge(op, params, cols, res, viols, tag, counters, tol=1e-6 if dt_ == "float32" else 1e-9)
        outcomes["%s:%s" % (op, oc)] = outcomes.get("%s:%s" % (op, oc), 0) + 1
        # the same cells arranged as a grid (rank 2) and as a block (rank 3): the definitions are cell-wise, so the result is the
        # vector result reshaped, missing cells included
        if res[0] == "ok" and isinstance(res[1], numpy.ndarray) and len(tuples) > 1:
            N = len(tuples)
            f = next((d for d in (2, 3, 5, 7, 11) if N % d == 0), None)
            shapes = [(f, N // f)] if f else [(1, N)]
            if f and (N // f) % f == 0:
                shapes.append((f, f, N // f // f))
            for shp in shapes:
                rg = D.execute(op, [D.mk_array(c, maskform=form, dtype=dt_, shape=shp) for c in cols], params)
                same = rg[0] == "ok" and isinstance(rg[1], numpy.ndarray) and tuple(rg[1].shape) == shp and _same(("ok", numpy.ma.asarray(rg[1]).reshape(N)), res, 0.0)
                if not same:
                    what = "raised %r" % (rg[1],) if rg[0] != "ok" else "differs from the vector result"
                    if rg[0] == "ok" and isinstance(rg[1], numpy.ndarray) and tuple(rg[1].shape) == shp:
                        a, b = numpy.ma.asarray(rg[1]).reshape(N), numpy.ma.asarray(res[1])
                        ma, mb = numpy.ma.getmaskarray(a), numpy.ma.getmaskarray(b)
                        i = int(numpy.argmax((ma != mb) | (a.filled(0) != b.filled(0))))
                        what = "cell %d is %s, in the vector result %s (inputs %s)" % (i, "MISSING" if ma[i] else a[i], "MISSING" if mb[i] else b[i], [str(c[i]) for c in cols])
                    viols.append(V("C06:%s:grid-differs-from-vector" % op, "%s %r on shape %r: %s" % (op, params, shp, what), **dict(tag, shape=list(shp))))
                    break
    nontriv = sum(1 for t in tuples if any(x is not None for x in t))
    return {"evals": len(tuples) * len(forms), "nontrivial": nontriv, "judged": counters["judged"], "unspecified": counters["unspecified"],
            "viols": viols, "outcomes": outcomes,
            "sample": {"op": op, "n": n, "params": params, "lattice": lat, "cells_in_one_call": len(tuples),
                       "first_tuples": [[str(x) for x in t] for t in tuples[:3]]}}


def _ex(op, arrays, params=None):
    r = D.execute(op, arrays, params or {})
    return r


def _same(a, b, tol=1e-12):
    if a[0] != "ok" or b[0] != "ok":
        return a[0] == b[0]
    x, y = numpy.ma.asarray(a[1]), numpy.ma.asarray(b[1])
    if x.shape != y.shape:
        return False
    mx, my = numpy.ma.getmaskarray(x), numpy.ma.getmaskarray(y)
    if (mx != my).any():
        return False
    return bool(numpy.all(numpy.abs(x.filled(0) - y.filled(0)) <= tol))


def _laws(case):
    _, n, lat, tier = case
    L = _lattice(lat)
    tuples = list(itertools.product(L, repeat=n))
    cols = [[t[i] for t in tuples] for i in range(n)]

    shared = [D.mk_array(c) for c in cols]
    pristine = [a.copy() for a in shared]

    def arrs():
        # the SAME input arrays are handed to every operator call of this case, as in a model where several commands consume the same
        # results: an operator that modifies its inputs corrupts the later laws (and is reported below)
        return list(shared)

    viols = []
    judged = 0
    tag = {"n": n, "lattice": lat}

    def law(name, ok, why=""):
        nonlocal judged
        judged += len(tuples)
        if not ok:
            viols.append(V("C06:law:" + name, "law %s fails for n=%d over %s %s" % (name, n, lat, why), **tag))

    Or, And, Un = _ex("FuzzyOr", arrs()), _ex("FuzzyAnd", arrs()), _ex("FuzzyUnion", arrs())
    # Not is an involution, exchanging Or with And
    nots = [_ex("FuzzyNot", [a]) for a in arrs()]
    if all(r[0] == "ok" for r in nots):
        notnot = [_ex("FuzzyNot", [r[1]]) for r in nots]
        law("not-involution", all(_same(nn, ("ok", a)) for nn, a in zip(notnot, arrs())))
        and_of_nots = _ex("FuzzyAnd", [r[1] for r in nots])
        or_of_nots = _ex("FuzzyOr", [r[1] for r in nots])
        if Or[0] == "ok" and And[0] == "ok":
            law("demorgan-or", _same(_ex("FuzzyNot", [Or[1]]), and_of_nots))
            law("demorgan-and", _same(_ex("FuzzyNot", [And[1]]), or_of_nots))
    else:
        law("not-runs", False, repr([r[1] for r in nots if r[0] != "ok"][:1]))
    if Or[0] == "ok" and And[0] == "ok" and Un[0] == "ok":
        a, u, o = (numpy.ma.asarray(x[1]) for x in (And, Un, Or))
        law("and<=union<=or", bool(numpy.ma.all(a <= u + 1e-12)) and bool(numpy.ma.all(u <= o + 1e-12)))
    else:
        law("or-and-union-run", False)
    su = lambda tf, k: _ex("FuzzySelectedUnion", arrs(), {"TruestOrFalsest": tf, "NumberToConsider": k})
    law("selected(k=1,Truest)=Or", _same(su("Truest", 1), Or))
    law("selected(k=1,Falsest)=And", _same(su("Falsest", 1), And))
    law("selected(k=n,Truest)=Union", _same(su("Truest", n), Un, 1e-9))
    law("selected(k=n,Falsest)=Union", _same(su("Falsest", n), Un, 1e-9))
    for w in (1, 2.5):
        law("weighted(equal)=Union", _same(_ex("FuzzyWeightedUnion", arrs(), {"Weights": [w] * n}), Un, 1e-9))
    # the SAME result listed more than once, and a one-input Or / And (whose result may be the input object itself) listed next to its
    # input: maximum, minimum and mean of equal values are that value; a repeated input counts as often as it is listed
    A0 = arrs()[0]
    X1, Y1 = _ex("FuzzyOr", [A0]), _ex("FuzzyAnd", [A0])
    for nm, lst in (("Or(A,A)", ("FuzzyOr", [A0, A0])), ("And(A,A)", ("FuzzyAnd", [A0, A0])), ("Union(A,A)", ("FuzzyUnion", [A0, A0])),
                    ("Union(A,A,A)", ("FuzzyUnion", [A0, A0, A0]))) + (
            (("Union(A,Or(A))", ("FuzzyUnion", [A0, X1[1]])), ("And(A,Or(A))", ("FuzzyAnd", [A0, X1[1]])), ("Or(And(A),A)", ("FuzzyOr", [Y1[1], A0])))
            if X1[0] == "ok" and Y1[0] == "ok" else ()):
        law("repeated-input:" + nm.split("(")[0], _same(_ex(lst[0], lst[1]), ("ok", A0), 1e-12), nm + " differs from A")
    law("repeated-input:WeightedUnion", _same(_ex("FuzzyWeightedUnion", [A0, A0], {"Weights": [1, 3]}), ("ok", A0), 1e-12), "WeightedUnion(A,A) differs from A")
    if n >= 2:
        B0 = arrs()[1]
        law("repeated-input:Or(A,B,A)", _same(_ex("FuzzyOr", [A0, B0, A0]), _ex("FuzzyOr", [A0, B0]), 0.0))
        law("repeated-input:Union(A,A,B)", _same(_ex("FuzzyUnion", [A0, A0, B0]), _ex("FuzzyWeightedUnion", [A0, B0], {"Weights": [2, 1]}), 1e-12))
        law("repeated-input:XOr(A,B,A)", _same(_ex("FuzzyXOr", [A0, B0, A0]), _ex("FuzzyXOr", [A0.copy(), B0.copy(), A0.copy()]), 0.0))
    # explicit input permutations (n<=4): results identical bit for bit for order-insensitive operators
    if n >= 2:
        perms = list(itertools.permutations(range(n)))
        if n > 3:
            perms = [tuple(reversed(range(n))), tuple(list(range(1, n)) + [0])]
        for op, base in (("FuzzyOr", Or), ("FuzzyAnd", And), ("FuzzyUnion", Un), ("FuzzyXOr", _ex("FuzzyXOr", arrs()))):
            for pm in perms:
                a = arrs()
                law("%s-input-order" % op, _same(_ex(op, [a[i] for i in pm]), base, 1e-12), "perm %r" % (pm,))
    # results returned EARLIER in this case must still hold their values after all the later operator calls (no result may live in
    # a buffer that a later command reuses): recompute on pristine copies and compare with the objects returned before
    earlier = [("FuzzyOr", {}, Or), ("FuzzyAnd", {}, And), ("FuzzyUnion", {}, Un), ("FuzzySelectedUnion", {"TruestOrFalsest": "Truest", "NumberToConsider": 1}, su("Truest", 1)),
               ("FuzzySelectedUnion", {"TruestOrFalsest": "Falsest", "NumberToConsider": 1}, su("Falsest", 1)),
               ("FuzzySelectedUnion", {"TruestOrFalsest": "Truest", "NumberToConsider": n}, su("Truest", n))]
    if n >= 2:
        earlier.append(("FuzzyXOr", {}, _ex("FuzzyXOr", arrs())))
    at_return = [(r_[1].copy() if r_[0] == "ok" and hasattr(r_[1], "copy") else None) for _, _, r_ in earlier]
    # interleave calls of the stacking operators on DIFFERENT data of the same shape
    other = [D.mk_array(list(reversed(c))) for c in cols]
    for op_, pr_ in (("FuzzySelectedUnion", {"TruestOrFalsest": "Falsest", "NumberToConsider": 1}), ("FuzzySelectedUnion", {"TruestOrFalsest": "Truest", "NumberToConsider": n}),
                     ("FuzzyOr", {}), ("FuzzyUnion", {})) + ((("FuzzyXOr", {}),) if n >= 2 else ()):
        _ex(op_, list(other), pr_)
    for (op_, pr_, res_), snap_ in zip(earlier, at_return):
        if snap_ is not None:
            law("%s-result-stable-after-later-calls" % op_, _same(res_, ("ok", snap_), 0.0), "params %r: the returned array changed when later commands ran" % (pr_,))
        fresh = _ex(op_, [x.copy() for x in pristine], pr_)
        law("%s-result-equals-recomputation" % op_, _same(("ok", snap_) if snap_ is not None else res_, fresh, 0.0), "params %r" % (pr_,))
    # second pass over every operator on the shared inputs: same results as on pristine copies
    for op, params in (("FuzzyOr", {}), ("FuzzyAnd", {}), ("FuzzyUnion", {}), ("FuzzyXOr", {}), ("FuzzyWeightedUnion", {"Weights": [1] + [0.5] * (n - 1)}),
                       ("FuzzyWeightedUnion", {"Weights": [2] * n}), ("FuzzySelectedUnion", {"TruestOrFalsest": "Truest", "NumberToConsider": 1}),
                       ("FuzzySelectedUnion", {"TruestOrFalsest": "Falsest", "NumberToConsider": n})):
        if op == "FuzzyXOr" and n < 2:
            continue
        a = _ex(op, list(shared), params)
        b = _ex(op, [x.copy() for x in pristine], params)
        law("%s-same-on-shared-inputs" % op, _same(a, b, 0.0), "params %r" % (params,))
    for i, (x, y) in enumerate(zip(shared, pristine)):
        law("inputs-unchanged", _same(("ok", x), ("ok", y), 0.0), "input %d was modified by an operator" % i)
    return {"evals": len(tuples) * 12, "nontrivial": len(tuples), "judged": judged, "viols": viols,
            "outcomes": {"laws:ok" if not viols else "laws:bad": 1},
            "sample": {"laws_on": "all %d tuples of %s^%d" % (len(tuples), lat, n)}}


def _small(case):
    _, op, n, size, first, tier = case
    vals = [F(-1), F(-1, 4), F(1, 2), F(1), M]
    viols = []
    counters = {"judged": 0, "unspecified": 0}
    outcomes = {}
    evals = 0
    nontriv = 0
    sample = None
    cell_lists = list(itertools.product(vals, repeat=size))
    for combo in itertools.product([cell_lists[first]], *([cell_lists] * (n - 1))):
        cols = [list(c) for c in combo]
        anymiss = [any(x is None for x in c) for c in cols]
        forms = ["auto"] if all(anymiss) else ["nomask", "false"]
        for form in forms:
            for params in _presets(op, n, "quick")[:6]:
                arrays = [D.mk_array(c, maskform=form) for c in cols]
                res = D.execute(op, arrays, params)
                tag = {"op": op, "params": params, "inputs": [[str(x) for x in c] for c in cols], "maskform": form}
                oc = _judge(op, params, cols, res, viols, tag, counters)
                k = "%s:%s" % (op, oc)
                outcomes[k] = outcomes.get(k, 0) + 1
                evals += 1
                nontriv += 1
                sample = tag
    return {"evals": evals, "nontrivial": nontriv, "judged": counters["judged"], "unspecified": counters["unspecified"],
            "viols": viols[:50], "outcomes": outcomes, "sample": sample}


def run(case):
    case = tuple(case)
    if case[0] in ("packed", "packed32", "packedint", "packedmix"):
        return _packed(case)
    if case[0] == "laws":
        return _laws(case)
    return _small(case)
