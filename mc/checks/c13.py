"""C13 — only declared error types escape, and the CLI reports them.

Union of: (1) the complete C12 command x parameter x raw-kind matrix (both library sets, incl. all UNSPECIFIED cells), the
producer/consumer pairings and the single-fault space; (2) every single-token corruption (delete / duplicate / swap with next /
replace by each delimiter) of every token of the structural programs and of two real models; (3) raw quoted-string bodies: every
string of <=3 symbols over {a, backslash, double quote, single quote, n, u, x, N, 0, {, space} between quotes; (4) CSV contents:
every file of <=3 lines x <=2 fields over 6 cell forms incl. ragged rows, empty file, header only, CRLF, x read options;
(5) execute-time argument confusion.  Every case goes through Program.from_source + run(); failing ones also through the
command-line tool.  Oracle: success, SyntaxError, or an MPilotError whose str() renders; for MPilot errors the CLI exits non-zero
and prints the message to standard error.
"""
import contextlib
import io
import itertools
import os

import numpy

from ..core import V
from .. import snapshot
from ..ref import grammar as G
from ..ref import sig as SIG
from . import c10, c11, c12

ID = "C13"
LEVEL = "fault_enumeration"
CHUNK = 1
RULE = ("cases = blocks of model texts / token corruptions / raw string bodies / CSV contents; each is loaded and run through the API "
        "(and the CLI when it fails with an MPilot error); non-trivial = distinct texts (or file contents)")
ASSUMPTIONS = ["OS-level I/O failures are not injected", "the CLI is driven in-process through click.testing.CliRunner",
               "how the CLI reports a SyntaxError is not specified by the statement"]
CSV, NETCDF = c12.CSV, c12.NETCDF


def BOUND(tier):
    return "C12 matrix (all cells) + all single-token corruptions of 16 programs + raw string bodies <=3 symbols over 11 + CSV files <=3 lines x <=2 fields over 6 cells"


def cases(tier):
    for libset in ("csv", "netcdf"):
        for cmd in sorted(SIG.table(libset)):
            yield ("matrix", libset, cmd)
    for mi in range(len(c11.MODELS)):
        yield ("faults", mi)
    for name in sorted(SIG.EEMS2):
        yield ("v2matrix", name)
    for si in range(len(c10.STRUCT)):
        yield ("corrupt", "struct", si)
    for mi in range(len(c11.MODELS)):
        for part in range(8):
            yield ("corrupt", "model", mi, part)
    syms = RAW_SYMS
    for first in syms:
        yield ("rawstring", first)
    yield ("rawstring", "")
    for nlines in (0, 1, 2, 3):
        for opt in range(len(READ_OPTS)):
            for h in range(6 if nlines else 1):
                for r in (range(6) if nlines == 3 else [-1]):
                    yield ("csv", nlines, opt, h, r)
    yield ("confusion",)
    for libset in ("csv", "netcdf"):
        yield ("paths", libset)


RAW_SYMS = ["a", "\\", '"', "'", "n", "u", "x", "N", "0", "{", " "]
CELLS = ["1", "2.5", "", "x", "nan", "-9999"]
READ_OPTS = [[], [("MissingVal", ("int", "-9999"))], [("DataType", ("bare", "Integer"))], [("MissingVal", ("int", "-9999")), ("DataType", ("bare", "Integer"))],
             [("MissingVal", ("dec", "2.5"))]]


def _classify(ob, text, viols, keybase, tag):
    """ob from c12._observe; returns outcome label"""
    if ob["phase"] == "raw":
        if ob["cls"] == "SyntaxError":
            return "SyntaxError"
        viols.append(V("C13:%s:raw-exception:%s" % (keybase, ob["cls"]), "%s escaped from from_source()/run(): %s; text %r" % (ob["cls"], str(ob["exc"])[:120], text[:300]), **tag))
        return "raw"
    if ob["exc"] is not None:
        try:
            s = str(ob["exc"])
            if not s.strip():
                raise ValueError("empty message")
        except Exception as exc:
            viols.append(V("C13:%s:str-raises:%s" % (keybase, ob["cls"]), "str(%s) raised %r" % (ob["cls"], exc), **tag))
        return "mpilot:" + ob["cls"]
    return "success"


def _observe(text, libs, work):
    from mpilot.exceptions import MPilotError
    from mpilot.program import Program

    before = set(os.listdir(work))
    out = {"phase": "completed", "cls": None, "exc": None}
    try:
        with contextlib.redirect_stdout(io.StringIO()), numpy.errstate(all="ignore"):
            p = Program.from_source(text, libraries=libs, working_dir=work)
            p.run()
    except MPilotError as exc:
        out.update(phase="mpilot", cls=type(exc).__name__, exc=exc)
    except SyntaxError as exc:
        out.update(phase="raw", cls="SyntaxError", exc=exc)
    except Exception as exc:
        out.update(phase="raw", cls=type(exc).__name__, exc=exc)
    for f in set(os.listdir(work)) - before:
        if os.path.isdir(os.path.join(work, f)):
            import shutil

            shutil.rmtree(os.path.join(work, f), ignore_errors=True)
        else:
            os.remove(os.path.join(work, f))
    return out


def _cli(text, libset, work, ob, viols, keybase, tag):
    """the failing model through the command-line tool"""
    from click.testing import CliRunner
    from mpilot.cli import mpilot as cli

    if any(ord(c) > 127 for c in text):
        return "cli-skipped-non-ascii"
    path = os.path.join(work, "cli_model.mpt")
    with open(path, "w", newline="") as f:
        f.write(text)
    before = set(os.listdir(work))
    try:
        r = CliRunner(mix_stderr=False).invoke(cli.main, ["eems-" + libset, path])
    except TypeError:
        r = CliRunner().invoke(cli.main, ["eems-" + libset, path])
    for f in set(os.listdir(work)) - before:
        snapshot.remove_path(os.path.join(work, f))
    snapshot.remove_path(path)
    if r.exception is not None and not isinstance(r.exception, SystemExit):
        viols.append(V("C13:%s:cli-raw-exception:%s" % (keybase, type(r.exception).__name__), "CLI let %r escape for a model that fails with %s" % (r.exception, ob["cls"]), **tag))
        return "cli-raw"
    if r.exit_code == 0:
        viols.append(V("C13:%s:cli-exit-0" % keybase, "CLI exited 0 for a model that fails with %s" % ob["cls"], **tag))
        return "cli-exit-0"
    stderr = getattr(r, "stderr", None)
    if stderr is None:
        stderr = r.output
    import re

    addr = re.compile(r" at 0x[0-9a-fA-F]+")  # object addresses differ between the API run and the CLI run
    first = addr.sub("", str(ob["exc"]).split("\n")[0])
    if first not in addr.sub("", stderr):
        viols.append(V("C13:%s:cli-message-missing" % keybase, "CLI stderr lacks the message %r (stderr %r)" % (first, stderr[:200]), **tag))
        return "cli-no-message"
    return "cli-ok"


def _run_texts(texts, libset, viols, outcomes, keybase, files=None, cli=True, absdir=False):
    libs = CSV if libset == "csv" else NETCDF
    work = c12._setup_dir(libset)
    if absdir:
        texts = [(label, text.replace("ABSDIR", work)) for label, text in texts]
    seen = set()
    n = 0
    sample = None
    try:
        for label, text in texts:
            if files:
                for fn, content in files(label).items():
                    with open(os.path.join(work, fn), "w", newline="") as f:
                        f.write(content)
            ob = _observe(text, libs, work)
            n += 1
            seen.add(hash(text) ^ hash(label))
            tag = {"label": label, "text": text[:600], "libraries": libset}
            sample = tag
            oc = _classify(ob, text, viols, keybase, tag)
            outcomes[oc] = outcomes.get(oc, 0) + 1
            if cli and oc.startswith("mpilot:"):
                c = _cli(text, libset, work, ob, viols, keybase, tag)
                outcomes[c] = outcomes.get(c, 0) + 1
            if len(viols) > 60:
                del viols[60:]
    finally:
        import shutil
        shutil.rmtree(work, ignore_errors=True)
    return n, len(seen), sample


def _matrix_texts(libset, cmd):
    table = SIG.table(libset)
    plist = table[cmd]["params"] + [("Metadata", "Tuple", False)]
    base = c12._baseline(cmd, libset)
    for pname, kind, req in plist:
        for rk in c12.RAW_KINDS:
            args = [a for a in base if a[0] != pname]
            if rk == "extra":
                args = list(base) + [("BogusParameter", ("int", "1"))]
            elif rk.startswith("extra-"):
                continue
            elif rk != "missing":
                args = args + [(pname, c12._raw(rk))]
            prog = c12._prefix(libset) + [("T", cmd, args)]
            yield "%s.%s<-%s" % (cmd, pname, rk), G.render(G.items_of(prog))[0]
            # the same ill-typed command with a CONSUMER written ABOVE it: the consumer's reference (with a fuzziness requirement) is looked at
            # before the command's own arguments have been validated
            for cons in ((("Z", "FuzzyNot", [("InFieldName", ("bare", "T"))]), ("Z", "CvtToFuzzy", [("InFieldName", ("bare", "T")), ("TrueThreshold", ("int", "1")), ("FalseThreshold", ("int", "0"))]))
                         if cmd == "EEMSRead" else (("Z", "FuzzyNot", [("InFieldName", ("bare", "T"))]),)):
                yield "%s.%s<-%s, %s above" % (cmd, pname, rk, cons[1]), G.render(G.items_of([cons] + prog))[0]
    # the same argument name written twice (same value / another value), in the LAST command of the file and in one that others follow
    for pname, val in base:
        for second in (val, ("int", "7")):
            dup = list(base) + [(pname, second)]
            yield "%s.%s twice (last command)" % (cmd, pname), G.render(G.items_of(c12._prefix(libset) + [("T", cmd, dup)]))[0]
            yield "%s.%s twice (then more commands)" % (cmd, pname), G.render(G.items_of([("T", cmd, dup)] + c12._prefix(libset)))[0]


def _token_corruptions(prog, part=None, parts=1):
    its = G.items_of(prog)
    toks = [i for i, it in enumerate(its) if it.alts[0] != "" and it.meta not in ("gap", "sp", "nl", "between", "lead", "tail", "sp-after-value", "trailing-comma")]
    base = [it.alts[0] for it in its]
    for n, i in enumerate(toks):
        if part is not None and n % parts != part:
            continue
        def emit(repl):
            parts_ = list(base)
            parts_[i] = repl
            return "".join(parts_)
        t = base[i]
        yield "delete %r" % t, emit("")
        yield "duplicate %r" % t, emit(t + " " + t)
        for d in ("(", ")", "[", "]", "=", ",", ":", '"', "'", "#", "\\", "5", "-", "\n"):
            if d != t:
                yield "replace %r by %r" % (t, d), emit(d)
        j = toks[n + 1] if n + 1 < len(toks) else None
        if j is not None:
            parts_ = list(base)
            parts_[i], parts_[j] = parts_[j], parts_[i]
            yield "swap %r and %r" % (t, base[j]), "".join(parts_)
        yield "truncate after %r" % t, "".join(base[:i + 1])
    # the same corruptions of the first and the last token under other line terminators (CRLF, bare CR, LF+CR) and with a leading blank line
    if part in (None, 0) and toks:
        for i in (toks[0], toks[-1], toks[len(toks) // 2]):
            for repl in ("", base[i] + " " + base[i], "=", "]"):
                parts_ = list(base)
                parts_[i] = repl
                text = "".join(parts_)
                for nl in ("\r\n", "\r", "\n\r"):
                    yield "corrupt %r -> %r with %r line breaks" % (base[i], repl, nl), ("\n" + text + "\n").replace("\n", nl)


def run(case):
    case = tuple(case)
    viols, outcomes = [], {}
    kind = case[0]
    if kind == "matrix":
        _, libset, cmd = case
        n, distinct, sample = _run_texts(_matrix_texts(libset, cmd), libset, viols, outcomes, "matrix")
    elif kind == "v2matrix":
        name = case[1]
        target = SIG.EEMS2[name] or "Sum"
        texts = []
        if target == "EEMSRead":
            base = [("InFileName", ("q", "input.csv")), ("InFieldName", ("bare", "A"))]
        else:
            base = [a for a in c12._baseline(target, "csv")]
        pnames = sorted({a[0] for a in base} | {"InFieldName", "NewFieldName", "OutFileName"})
        for pname in pnames:
            for rk in c12.RAW_KINDS:
                if rk in ("extra",) or rk.startswith("extra-"):
                    continue
                args = [a for a in base if a[0] != pname]
                if rk != "missing":
                    args = args + [(pname, c12._raw(rk))]
                for with_new in (False, True):
                    a2 = args + ([("NewFieldName", ("bare", "Res"))] if with_new and pname != "NewFieldName" else [])
                    pre = [(None, "READ", [("InFileName", ("q", "input.csv")), ("InFieldName", ("bare", "A"))]),
                           (None, "READ", [("InFileName", ("q", "input.csv")), ("InFieldName", ("bare", "B"))]),
                           (None, "CVTTOFUZZY", [("InFieldName", ("bare", "A")), ("NewFieldName", ("bare", "AF"))]),
                           (None, "CVTTOFUZZY", [("InFieldName", ("bare", "B")), ("NewFieldName", ("bare", "BF"))])]
                    texts.append(("%s.%s<-%s%s" % (name, pname, rk, "+NewFieldName" if with_new else ""), G.render(G.items_of(pre + [(None, name, a2)]))[0]))
        n, distinct, sample = _run_texts(texts, "csv", viols, outcomes, "eems2-matrix")
    elif kind == "faults":
        model = c11.MODELS[case[1]]
        texts = [(f[0], G.render(G.items_of(f[1]))[0]) for f in c11._faults(model)]
        texts += [(f[0] + ":multi-line", G.render(G.items_of(f[1]), c11._layout(G.items_of(f[1]), 3))[0]) for f in c11._faults(model)]
        n, distinct, sample = _run_texts(texts, "csv", viols, outcomes, "fault")
    elif kind == "corrupt":
        if case[1] == "struct":
            n, distinct, sample = _run_texts(_token_corruptions(c10.STRUCT[case[2]]), "csv", viols, outcomes, "corrupt", cli=False)
        else:
            n, distinct, sample = _run_texts(_token_corruptions(c11.MODELS[case[2]], case[3], 8), "csv", viols, outcomes, "corrupt")
    elif kind == "rawstring":
        first = case[1]
        bodies = [""] if first == "" else [first + "".join(t) for k in range(0, 3) for t in itertools.product(RAW_SYMS, repeat=k)]
        texts = []
        for b in bodies:
            for q in ('"', "'"):
                texts.append(("raw body %r in %s" % (b, q), "A = EEMSRead(InFileName = input.csv, InFieldName = %s%s%s)" % (q, b, q)))
        n, distinct, sample = _run_texts(texts, "csv", viols, outcomes, "rawstring", cli=False)
    elif kind == "csv":
        _, nlines, opt, hi, ri = case
        contents = {}
        rows1 = [[c] for c in CELLS] + [list(t) for t in itertools.product(CELLS, repeat=2)]
        headers = [["A"], ["A", "B"], ["B", "A"], ["B"], ["A", "A"], [""]]
        if nlines == 0:
            bodies = [""]
        else:
            bodies = []
            for h in headers[hi:hi + 1]:
                for rows in itertools.product(rows1, repeat=nlines - 1):
                    if ri >= 0 and rows[0][0] != CELLS[ri]:
                        continue
                    lines = [",".join(h)] + [",".join(r) for r in rows]
                    bodies.append("\n".join(lines) + "\n")
                    if nlines <= 2:
                        bodies.append("\r\n".join(lines))
                        bodies.append("\n".join(lines[:1] + [""] + lines[1:]) + "\n")
        model = [("A", "EEMSRead", [("InFileName", ("q", "data.csv")), ("InFieldName", ("bare", "A"))] + READ_OPTS[opt]),
                 ("S", "Sum", [("InFieldNames", ("list", [("bare", "A"), ("bare", "A")]))])]
        text = G.render(G.items_of(model))[0]
        texts = [(b, text) for b in bodies]
        n, distinct, sample = _run_texts(texts, "csv", viols, outcomes, "csv-content", files=lambda label: {"data.csv": label}, cli=(nlines <= 2))
        if sample:
            sample = {"csv_content": sample["label"], "model": text}
    elif case[0] == "paths":
        # the state of the FILE SYSTEM as the source of failure: output into a missing folder, below a regular file, onto a directory;
        # input from a directory, from below a regular file; relative and absolute.  Whatever happens is an MPilot error, reported by the CLI
        libset = case[1]
        b = lambda s: ("bare", s)
        q = lambda s: ("q", s)
        pre = c12._prefix(libset)
        data = "input.csv" if libset == "csv" else "input.nc"
        outs = ["out.dat", "nodir/out.dat", "nodir/deeper/out.dat", data + "/out.dat", data + "/run1/out.dat", ".", "..", "./", "out\x00_run.dat", "sub\x00dir/out.dat"]  # (not the data file itself: that run would destroy its own input)
        ins = [".", data + "/x", "nodir/" + data, "..", "nodir", "inputs\x00_baseline/" + data]  # (a NUL: what "\0" inside quotes decodes to)
        models = []
        for o in outs:
            for form in ("rel", "abs"):
                path = o if form == "rel" else "ABSDIR/" + o
                wargs = [("OutFileName", q(path)), ("OutFieldNames", ("list", [b("A")]))]
                if libset == "netcdf":
                    wargs += [("DimensionFileName", q("input.nc")), ("DimensionFieldName", b("A"))]
                models.append(("write %s" % path, pre + [("W2", "EEMSWrite", wargs)]))
                models.append(("print %s" % path, pre + [("P2", "PrintVars", [("InFieldNames", ("list", [b("A")])), ("OutFileName", q(path))])]))
        for i in ins:
            for form in ("rel", "abs"):
                path = i if form == "rel" else "ABSDIR/" + i
                models.append(("read %s" % path, pre + [("R2", "EEMSRead", [("InFileName", q(path)), ("InFieldName", b("A"))])]))
                if libset == "netcdf":
                    models.append(("dimension file %s" % path, pre + [("W3", "EEMSWrite", [("OutFileName", q("o.nc")), ("OutFieldNames", ("list", [b("A")])),
                                                                                          ("DimensionFileName", q(path)), ("DimensionFieldName", b("A"))])]))
        # TWO faults in one model: an input file that does not exist AND an output path of the wrong kind elsewhere (both orders, each writer):
        # whichever is reported, it is reported as an MPilot error
        for bad_out in (("int", "2020"), ("list", [b("report.txt")]), ("tuple", [("bare", "a", b("b"))]), ("dec", "1.5"), ("list", [])):
            rd = ("R2", "EEMSRead", [("InFileName", q("missing_input.csv" if libset == "csv" else "missing_input.nc")), ("InFieldName", b("A"))])
            wargs = [("OutFileName", bad_out), ("OutFieldNames", ("list", [b("A")]))]
            if libset == "netcdf":
                wargs += [("DimensionFileName", q("input.nc")), ("DimensionFieldName", b("A"))]
            for wr in (("W2", "EEMSWrite", wargs), ("P2", "PrintVars", [("InFieldNames", ("list", [b("A")])), ("OutFileName", bad_out)])):
                models.append(("missing input, then %s with OutFileName %s" % (wr[1], bad_out[0]), pre + [rd, wr]))
                models.append(("%s with OutFileName %s, then missing input" % (wr[1], bad_out[0]), pre + [wr, rd]))
        texts = [(label, G.render(G.items_of(m))[0]) for label, m in models]
        n, distinct, sample = _run_texts(texts, libset, viols, outcomes, "paths", absdir=True)
    else:
        b = lambda s: ("bare", s)
        pre = c12._prefix("csv")
        confusions = []
        for direction in ("LowToHigh", "Sideways", "5", ""):
            confusions.append(("T", "CvtToBinary", [("InFieldName", b("A")), ("Threshold", ("int", "5")), ("Direction", ("q", direction))]))
            confusions.append(("T", "CvtToFuzzy", [("InFieldName", b("A")), ("Direction", ("q", direction))]))
        for tf in ("Truest", "Neither", "1"):
            for k in ("0", "1", "2", "3", "-1", "1.5"):
                confusions.append(("T", "FuzzySelectedUnion", [("InFieldNames", ("list", [b("AF"), b("BF")])), ("TruestOrFalsest", ("q", tf)),
                                                               ("NumberToConsider", ("dec" if "." in k else "int", k))]))
        for w in ([], ["1"], ["1", "2"], ["1", "2", "3"], ["0", "0"], ["-1", "1"]):
            for cmd, ins in (("WeightedSum", ["A", "B"]), ("WeightedMean", ["A", "B"]), ("FuzzyWeightedUnion", ["AF", "BF"])):
                confusions.append(("T", cmd, [("InFieldNames", ("list", [b(x) for x in ins])), ("Weights", ("list", [("int", x) for x in w]))]))
        for nraw in (0, 1, 2):
            for nval in (0, 1, 2):
                for cmd, vn in (("CvtToFuzzyCurve", "FuzzyValues"), ("NormalizeCurve", "NormalValues"), ("CvtToFuzzyCurveZScore", "FuzzyValues")):
                    rn = "ZScoreValues" if "ZScore" in cmd else "RawValues"
                    confusions.append(("T", cmd, [("InFieldName", b("A")), (rn, ("list", [("int", str(i)) for i in range(nraw)])),
                                                  (vn, ("list", [("int", str(i)) for i in range(nval)]))]))
        for vals in ([], ["1"], ["1", "2", "3", "4", "5", "6"]):
            confusions.append(("T", "CvtToFuzzyMeanToMid", [("InFieldName", b("A")), ("IgnoreZeros", b("true")), ("FuzzyValues", ("list", [("int", x) for x in vals]))]))
        for cmd in ("FuzzyXOr", "FuzzyOr", "Sum", "Mean"):
            ins = ["AF"] if cmd.startswith("Fuzzy") else ["A"]
            confusions.append(("T", cmd, [("InFieldNames", ("list", [b(x) for x in ins]))]))
            confusions.append(("T", cmd, [("InFieldNames", ("list", []))]))
        texts = [("%s %r" % (c[1], c[2][1:]), G.render(G.items_of(pre + [c]))[0]) for c in confusions]
        # unquoted text that BEGINS like a number (file names starting with a year, grouped digits, codes): whatever the lexer makes of it,
        # it is a value, a syntax error or an MPilot error
        pre_text = G.render(G.items_of(pre))[0]
        for word in ("2020_sites.csv", "1__2", "12_", "3_000", "1_000_000", "0x1F", "1e5x", "5.5.5", "7-zip.csv", "-_1", "+_", "1e", "1e+", "2020-01-01", "10%", "1_a.b_2"):
            texts.append(("numberlike word %s as a file name" % word, pre_text + "R3 = EEMSRead(\n    InFileName = %s,\n    InFieldName = A\n)\n" % word))
            texts.append(("numberlike word %s as a number" % word, pre_text + "T = CvtToBinary(\n    InFieldName = A,\n    Threshold = %s,\n    Direction = LowToHigh\n)\n" % word))
            texts.append(("numberlike word %s in metadata and a list" % word, pre_text + "T = Sum(\n    InFieldNames = [A, %s],\n    Metadata = [Code: %s]\n)\n" % (word, word)))
        n, distinct, sample = _run_texts(texts, "csv", viols, outcomes, "confusion")
    return {"evals": max(n, 1), "nontrivial": distinct, "judged": n, "viols": viols, "outcomes": outcomes, "sample": sample}
