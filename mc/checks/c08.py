"""C08 — fuzzy conversions and normalisations compute their documented mappings.

For each of the 14 conversion/normalisation commands: every array of 2..4 cells over the value lattice (+MISSING at every
placement, int and float element types) with >=2 distinct valid values x every parameter preset of the command's alphabet
(all ordered threshold pairs, directions, category tables, control-point sets in every order, z-score vectors, Start/End).
Oracle: reference mappings in mc/ref/eems.py; plus relations between the implementation's own outputs
(CvtToFuzzyX = clamp(NormalizeX on [-1,+1]); CvtFromFuzzy o CvtToFuzzy = id between the thresholds; control-point order
irrelevant).
"""
import itertools
from fractions import Fraction as F

import numpy

from ..core import V
from .. import numdrv as D
from ..ref import eems as REF

ID = "C08"
LEVEL = "exploration"
CHUNK = 1
RULE = ("cases = (command, preset, element type, array size); each enumerates every array of that size over the lattice+MISSING with "
        ">=2 distinct valid values and compares every cell with the reference mapping; non-trivial = distinct (command, preset, array)")
ASSUMPTIONS = ["default z-score thresholds of NormalizeZScore, StartVal>=EndVal, all-missing inputs are UNSPECIFIED",
               "degenerate statistics (zero variance, max==min) only require an MPilot error or an all-missing/finite result",
               "square roots make z-score references float: compared to 1e-9 relative"]
M = None
LQ = [F(-1), F(0), F(1, 2), F(2), F(5)]
LT = [F(-2), F(-1), F(-1, 2), F(0), F(1, 4), F(1), F(3, 2), F(2), F(5)]
LI = [F(-1), F(0), F(2), F(5)]
LFZ = [F(-1), F(-1, 2), F(0), F(1, 4), F(1)]
CMDS = ("CvtToFuzzy", "CvtFromFuzzy", "CvtToBinary", "CvtToFuzzyCat", "CvtToFuzzyCurve", "CvtToFuzzyZScore", "CvtToFuzzyCurveZScore",
        "CvtToFuzzyMeanToMid", "Normalize", "NormalizeZScore", "NormalizeCat", "NormalizeCurve", "NormalizeMeanToMid", "NormalizeCurveZScore")
TH = [-1, 0, 0.5, 2, 5]
CURVE_MAP = {-1: 0, 0: 1, 2: 0.25, 5: -3}
Z_MAP = {-1: -1, 0: 0.5, 1: 1, 2: -2, 0.5: 0.25}


def BOUND(tier):
    return ("arrays of 2..4 cells over %s + MISSING, float and int; threshold pairs from {-1,0,1/2,2,5}; curves: all ordered control-point "
            "lists of size 1..3 from 4 raw values" % ("a 5-value lattice" if tier == "quick" else "the 9-value lattice V (size<=4) "))


def presets(cmd):
    P = []
    if cmd == "CvtToFuzzy":
        for d in (None, "LowToHigh", "HighToLow"):
            dd = {} if d is None else {"Direction": d}
            P.append(dict(dd))
            for t in TH:
                P.append(dict(dd, TrueThreshold=t))
                P.append(dict(dd, FalseThreshold=t))
                for f in TH:
                    P.append(dict(dd, TrueThreshold=t, FalseThreshold=f))
        P.append({"Direction": "Sideways"})
        P.append({"Direction": "Sideways", "TrueThreshold": 1, "FalseThreshold": 0})
        P.append({"TrueThreshold": 2.5, "FalseThreshold": 0.25})
    elif cmd == "CvtFromFuzzy":
        for t in TH:
            for f in TH:
                P.append({"TrueThreshold": t, "FalseThreshold": f})
    elif cmd == "CvtToBinary":
        for t in TH + [0.25]:
            for d in ("LowToHigh", "HighToLow"):
                P.append({"Threshold": t, "Direction": d})
        P.append({"Threshold": 0, "Direction": "Up"})
    elif cmd in ("CvtToFuzzyCat", "NormalizeCat"):
        vn = "FuzzyValues" if cmd.startswith("Cvt") else "NormalValues"
        dn = "DefaultFuzzyValue" if cmd.startswith("Cvt") else "DefaultNormalValue"
        for raw, vals, dv in (([0], [1], -1), ([0, 2], [0.5, -0.5], 0), ([2, 0, 5], [1, -1, 0.25], 0.5), ([-1, 0.5], [7, -5], 3),
                              ([5, 2, 0, -1], [-1, -0.5, 0.5, 1], 0), ([], [], 0.25), ([0, 2], [1], 0), ([0, 0], [1, 2], 0), ([9], [1], -0.75)):
            P.append({"RawValues": raw, vn: vals, dn: dv})
    elif cmd in ("CvtToFuzzyCurve", "NormalizeCurve"):
        vn = "FuzzyValues" if cmd.startswith("Cvt") else "NormalValues"
        raws = [-1, 0, 2, 5]
        for k in (1, 2, 3):
            for pts in itertools.permutations(raws, k):
                P.append({"RawValues": list(pts), vn: [CURVE_MAP[r] for r in pts]})
        P.append({"RawValues": [0.25, 3], vn: [-0.5, 0.5]})  # control points off the lattice
        P.append({"RawValues": [0, 2], vn: [1]})
        P.append({"RawValues": [2, 2], vn: [1, 0]})
    elif cmd in ("CvtToFuzzyZScore", "NormalizeZScore"):
        zs = [-1, 0, 0.5, 2]
        for t in zs:
            for f in zs:
                P.append({"TrueThresholdZScore": t, "FalseThresholdZScore": f})
        P.append({})
        P.append({"TrueThresholdZScore": 1})
        if cmd == "NormalizeZScore":
            for t, f in ((1, -1), (-1, 1), (0.5, 2)):
                P.append({"TrueThresholdZScore": t, "FalseThresholdZScore": f, "StartVal": -1, "EndVal": 1})
                P.append({"TrueThresholdZScore": t, "FalseThresholdZScore": f, "StartVal": 0, "EndVal": 10})
                P.append({"TrueThresholdZScore": t, "FalseThresholdZScore": f, "EndVal": 4})
    elif cmd in ("CvtToFuzzyCurveZScore", "NormalizeCurveZScore"):
        vn = "FuzzyValues" if cmd.startswith("Cvt") else "NormalValues"
        for zset in ((-1, 0, 1), (0,), (-1, 2), (0.5, -1)):
            for pts in itertools.permutations(zset):
                P.append({"ZScoreValues": list(pts), vn: [Z_MAP[z] for z in pts]})
        P.append({"ZScoreValues": [0, 1], vn: [1]})
    elif cmd in ("CvtToFuzzyMeanToMid", "NormalizeMeanToMid"):
        vn = "FuzzyValues" if cmd.startswith("Cvt") else "NormalValues"
        for iz in (False, True):
            for vals in ([-1, -0.5, 0, 0.5, 1], [0, 0.25, 0.5, 0.75, 1], [1, 0.5, 0, -0.5, -1], [-2, 0, 0.5, 1, 3]):
                P.append({"IgnoreZeros": iz, vn: vals})
    elif cmd == "Normalize":
        P += [{}, {"StartVal": -1, "EndVal": 1}, {"StartVal": 0, "EndVal": 10}, {"StartVal": 1, "EndVal": 0}, {"EndVal": 5}, {"StartVal": 0.5},
              {"StartVal": 2, "EndVal": 2}]
    return P


def lattice(cmd, dtype, tier):
    if cmd == "CvtFromFuzzy":
        return LFZ if dtype == "float" else [F(-1), F(0), F(1)]  # integer-typed fuzzy data: the three integers of the fuzzy range
    if dtype == "int":
        return LI
    return LQ if tier == "quick" else LT


def arrays_of(lat, size):
    for cells in itertools.product(lat + [M], repeat=size):
        if len({c for c in cells if c is not None}) >= 2:
            yield list(cells)


def cases(tier):
    for cmd in CMDS:
        n = len(presets(cmd))
        for dt in ("float", "int"):
            for size in (2, 3, 4):
                if tier == "thorough" and dt == "float" and size == 4:
                    for pi in range(n):
                        for first in range(10):
                            yield (cmd, pi, pi + 1, dt, size, tier, first)
                    continue
                blk = max(1, n // 8) if size == 4 else n
                for lo in range(0, n, blk):
                    yield (cmd, lo, min(n, lo + blk), dt, size, tier, -1)
    for cmd in ("CvtToFuzzyZScore", "CvtToFuzzyCat", "CvtToFuzzyCurve", "CvtToFuzzyMeanToMid", "CvtToFuzzyCurveZScore", "CvtToFuzzy"):
        for dt in ("float", "int"):
            yield ("relation", cmd, dt, tier)
    yield ("inverse", "CvtFromFuzzy", "float", tier)
    for cmd in CMDS:
        if cmd != "CvtFromFuzzy":
            yield ("offset", cmd, tier)
    for cmd in UNSIGNED_CMDS:
        yield ("unsigned", cmd, tier)
    for cmd in CMDS:
        yield ("edited", cmd, tier)


def _run_cmd(case):
    cmd, lo, hi, dt, size, tier, first = case
    P = presets(cmd)
    lat = lattice(cmd, dt, tier)
    viols = []
    counters = {"judged": 0, "unspecified": 0}
    outcomes = {}
    evals = 0
    sample = None
    for cells in arrays_of(lat, size):
        if first >= 0 and (lat + [M]).index(cells[0]) != first:
            continue
        hasmiss = any(c is None for c in cells)
        for pi in range(lo, hi):
            params = P[pi]
            for form in (("auto",) if hasmiss else ("nomask", "false")):
                arr = D.mk_array(cells, dtype=dt, maskform=form)
                res = D.execute(cmd, [arr], params)
                tag = {"cmd": cmd, "params": params, "cells": [str(c) for c in cells], "dtype": dt, "maskform": form}
                nv = len(viols)
                oc = D.judge("C08", cmd, params, [cells], res, (size,), viols, tag, counters, V)
                for v in viols[nv:]:
                    if ":raised:" in v["key"]:
                        v["key"] += ":" + dt
                k = "%s:%s" % (cmd, oc)
                outcomes[k] = outcomes.get(k, 0) + 1
                evals += 1
                sample = tag
        if len(viols) > 200:
            viols = viols[:200]
    return {"evals": evals, "nontrivial": evals, "judged": counters["judged"], "unspecified": counters["unspecified"], "viols": viols,
            "outcomes": outcomes, "sample": sample}


def _run_offset(case):
    """data far from zero with a small spread (100000 + {0, 1, 2.5, 4}) and narrow integers whose squares do not fit their type (int32
    50000 + {0, 1, 3, 7}): the statistics-based conversions must still follow the exact reference"""
    _, cmd, tier = case
    viols = []
    counters = {"judged": 0, "unspecified": 0}
    outcomes = {}
    evals = 0
    sample = None
    for dt, lat in (("float", [F(100000), F(100001), F(200005, 2), F(100004)]), ("int32", [F(50000), F(50001), F(50003), F(50007)])):
        for size in (3, 4):
            for cells in (arrays_of(lat, size) if size == 3 else [list(lat), list(reversed(lat)), lat[:3] + [M], [M] + lat[1:]]):
                for params in presets(cmd):
                    arr = D.mk_array(cells, dtype=dt)
                    res = D.execute(cmd, [arr], params)
                    tag = {"cmd": cmd, "params": params, "cells": [str(c) for c in cells], "dtype": dt}
                    nv = len(viols)
                    oc = D.judge("C08", cmd, params, [cells], res, (size,), viols, tag, counters, V)
                    for v in viols[nv:]:
                        v["key"] += ":offset-data:" + dt
                    k = "%s:offset:%s" % (cmd, oc)
                    outcomes[k] = outcomes.get(k, 0) + 1
                    evals += 1
                    sample = tag
            if len(viols) > 60:
                viols = viols[:60]
    return {"evals": evals, "nontrivial": evals, "judged": counters["judged"], "unspecified": counters["unspecified"], "viols": viols,
            "outcomes": outcomes, "sample": sample}


UNSIGNED_CMDS = CMDS


def _run_unsigned(case):
    """unsigned integer data (what a Positive Integer read may deliver), every array of 2..3 cells over {0, 1, 2, 5} + MISSING x every preset:
    thresholds and control points above a cell value must not make the arithmetic wrap around"""
    _, cmd, tier = case
    viols = []
    counters = {"judged": 0, "unspecified": 0}
    outcomes = {}
    evals = 0
    sample = None
    lat = [F(0), F(1)] if cmd == "CvtFromFuzzy" else [F(0), F(1), F(2), F(5)]
    for size in (2, 3):
        for cells in arrays_of(lat, size):
            for params in presets(cmd):
                arr = D.mk_array(cells, dtype="uint")
                res = D.execute(cmd, [arr], params)
                tag = {"cmd": cmd, "params": params, "cells": [str(c) for c in cells], "dtype": "uint"}
                nv = len(viols)
                oc = D.judge("C08", cmd, params, [cells], res, (size,), viols, tag, counters, V)
                for v in viols[nv:]:
                    v["key"] += ":unsigned-data"
                k = "%s:unsigned:%s" % (cmd, oc)
                outcomes[k] = outcomes.get(k, 0) + 1
                evals += 1
                sample = tag
        if len(viols) > 60:
            viols = viols[:60]
    return {"evals": evals, "nontrivial": evals, "judged": counters["judged"], "unspecified": counters["unspecified"], "viols": viols,
            "outcomes": outcomes, "sample": sample}


def _same(a, b, tol=1e-12):
    if a[0] != "ok" or b[0] != "ok":
        return a[0] == b[0] and (a[0] != "err" or D.error_name(a[1]) == D.error_name(b[1]))
    x, y = numpy.ma.asarray(a[1]), numpy.ma.asarray(b[1])
    if x.shape != y.shape or (numpy.ma.getmaskarray(x) != numpy.ma.getmaskarray(y)).any():
        return False
    return bool(numpy.all(numpy.abs(x.filled(0) - y.filled(0)) <= tol * numpy.maximum(1, numpy.abs(y.filled(0)))))


def _relation(case):
    _, cmd, dt, tier = case
    viols, evals, judged = [], 0, 0
    lat = lattice(cmd, dt, tier if cmd != "CvtToFuzzy" else "quick")
    norm = REF.NORMAL_OF.get(cmd)
    for size in (2, 3) + ((4,) if tier == "thorough" else ()):
        for cells in arrays_of(lat, size):
            for params in presets(cmd):
                shared = D.mk_array(cells, dtype=dt)
                pristine = shared.copy()
                arr = lambda: shared  # both commands of a relation consume the SAME result object, as in a model
                a = D.execute(cmd, [arr()], params)
                tag = {"cmd": cmd, "params": params, "cells": [str(c) for c in cells], "dtype": dt}
                evals += 1
                if cmd == "CvtToFuzzy":
                    if params or a[0] != "ok":
                        continue
                    b = D.execute("Normalize", [arr()], {"StartVal": -1, "EndVal": 1})
                    judged += 1
                    if not _same(a, b, 1e-9):
                        viols.append(V("C08:relation:CvtToFuzzy(defaults)=Normalize(-1,1)", "differ on %r" % (tag["cells"],), **tag))
                    continue
                q = {}
                for k, v in params.items():
                    q[{"FuzzyValues": "NormalValues", "DefaultFuzzyValue": "DefaultNormalValue"}.get(k, k)] = v
                if cmd == "CvtToFuzzyZScore":
                    if "TrueThresholdZScore" not in q or "FalseThresholdZScore" not in q:
                        continue
                    q.update(StartVal=-1, EndVal=1)
                b = D.execute(norm, [arr()], q)
                judged += 1
                if not _same(("ok", shared), ("ok", pristine), 0.0):
                    viols.append(V("C08:relation:input-modified:%s" % cmd, "%s / %s modified the array they were given: %r -> %r" % (cmd, norm, pristine, shared), **tag))
                    continue
                if a[0] == "ok" and b[0] == "ok":
                    clamped = ("ok", numpy.ma.clip(numpy.ma.asarray(b[1]), -1, 1))
                    if not _same(a, clamped, 1e-9):
                        viols.append(V("C08:relation:%s=clamp(%s)" % (cmd, norm), "%s and clamped %s differ: %r vs %r" % (cmd, norm, a[1], b[1]), **tag))
                elif a[0] != b[0]:
                    viols.append(V("C08:relation:%s-vs-%s:one-fails" % (cmd, norm), "%s -> %s, %s -> %s" % (cmd, a[0], norm, b[0]), **tag))
            if len(viols) > 50:
                break
    return {"evals": evals, "nontrivial": evals, "judged": judged, "viols": viols[:50], "outcomes": {"relation:%s:%s" % (cmd, "ok" if not viols else "bad"): 1},
            "sample": {"relation": cmd, "dtype": dt}}


def _inverse(case):
    viols, evals, judged = [], 0, 0
    tier = case[3]
    for dt in ("float", "int"):
        lat = LI if dt == "int" else LQ
        for size in (2, 3):
            for cells in arrays_of(lat, size):
                for t in TH:
                    for f in TH:
                        if t == f:
                            continue
                        a = D.execute("CvtToFuzzy", [D.mk_array(cells, dtype=dt)], {"TrueThreshold": t, "FalseThreshold": f})
                        evals += 1
                        if a[0] != "ok":
                            continue
                        b = D.execute("CvtFromFuzzy", [a[1]], {"TrueThreshold": t, "FalseThreshold": f})
                        judged += 1
                        tag = {"cells": [str(c) for c in cells], "T": t, "F": f, "dtype": dt}
                        if b[0] != "ok":
                            viols.append(V("C08:inverse:raised", "CvtFromFuzzy(CvtToFuzzy(x)) raised %r" % (b[1],), **tag))
                            continue
                        _, got, _ = D.result_cells(b[1])
                        lo, hi = min(t, f), max(t, f)
                        for c, g in zip(cells, got):
                            if c is None:
                                if g is not None:
                                    viols.append(V("C08:inverse:missing-lost", "missing cell came back as %r" % (g,), **tag))
                            elif lo <= c <= hi and (g is None or abs(g - float(c)) > 1e-9):
                                viols.append(V("C08:inverse:not-identity", "x=%s between thresholds came back as %r" % (c, g), **tag))
                            elif c < lo and (g is None or abs(g - lo) > 1e-9) or c > hi and (g is None or abs(g - hi) > 1e-9):
                                viols.append(V("C08:inverse:not-clamped-to-threshold", "x=%s outside thresholds came back as %r" % (c, g), **tag))
    return {"evals": evals, "nontrivial": evals, "judged": judged, "viols": viols[:50], "outcomes": {"inverse:" + ("ok" if not viols else "bad"): 1},
            "sample": {"relation": "CvtFromFuzzy o CvtToFuzzy = id between thresholds"}}


def _run_edited(case):
    """the mapping must be the one of the CURRENT arguments: a program whose first run() stops at a later command (a data file that does not
    exist yet), then the conversion's arguments are changed (argument.value on the public Argument objects, or del + add_command), then
    run() again: the result must equal the reference mapping for the new arguments"""
    import contextlib
    import io
    import os

    from mpilot.exceptions import MPilotError
    from mpilot.program import Program
    from .. import snapshot
    from ..ref import sig as SIG

    _, cmd, tier = case
    work = snapshot.scratch_dir("c08_")
    col = [1.0, 5.0, 10.0, 2.0, 8.0, 0.0]
    with open(os.path.join(work, "in.csv"), "w") as f:
        f.write("A\n" + "\n".join(repr(v) for v in col) + "\n")
    libs = ("mpilot.libraries.eems.basic", "mpilot.libraries.eems.csv", "mpilot.libraries.eems.fuzzy")
    P = [p_ for p_ in presets(cmd) if REF.apply(cmd, [[F(v) for v in ([-1, -0.5, 0, 0.25, 1, 0.5] if cmd == "CvtFromFuzzy" else col)]], p_)[0] == "ok"]
    pairs = [(a, b) for a in P[:6] for b in P[:6] if a is not b and set(a) == set(b) and a != b][:12]
    viols, outcomes = [], {}
    evals = judged = 0
    sample = None
    slot = SIG.result_slots(cmd)[0][0]
    try:
        for p1, p2 in pairs:
            for how in ("edit-argument-values", "del-and-add"):
                for first_run in (True, False):
                    late = os.path.join(work, "late.csv")
                    if os.path.exists(late):
                        os.remove(late)
                    p = Program(libraries=libs, working_dir=work)
                    lib = p.command_library
                    p.add_command(lib["EEMSRead"], "A", {"InFileName": "in.csv", "InFieldName": "A"})
                    src = "A"
                    if cmd == "CvtFromFuzzy":
                        p.add_command(lib["CvtToFuzzy"], "Z", {"InFieldName": "A", "TrueThreshold": 10, "FalseThreshold": 0})
                        src = "Z"
                    p.add_command(lib[cmd], "X", dict({slot: src}, **p1))
                    p.add_command(lib["EEMSRead"], "L", {"InFileName": "late.csv", "InFieldName": "A"})
                    if first_run:
                        try:
                            with contextlib.redirect_stdout(io.StringIO()), numpy.errstate(all="ignore"):
                                p.run()
                        except MPilotError:
                            pass
                    with open(late, "w") as f:
                        f.write("A\n1\n2\n3\n4\n5\n6\n")
                    if how == "edit-argument-values":
                        try:
                            for a in p.commands["X"].arguments:
                                if a.name in p2:
                                    a.value = p2[a.name]
                        except (AttributeError, TypeError):
                            outcomes["edited:arguments-immutable"] = outcomes.get("edited:arguments-immutable", 0) + 1
                            continue  # argument objects cannot be edited in place in this implementation: nothing to judge
                    else:
                        del p.commands["X"]
                        p.add_command(lib[cmd], "X", dict({slot: src}, **p2))
                    try:
                        with contextlib.redirect_stdout(io.StringIO()), numpy.errstate(all="ignore"):
                            p.run()
                        res = ("ok", p.commands["X"].result)
                    except MPilotError as exc:
                        res = ("err", exc)
                    evals += 1
                    cells = [F(v) for v in col]
                    if cmd == "CvtFromFuzzy":
                        cells = REF.apply("CvtToFuzzy", [cells], {"TrueThreshold": 10, "FalseThreshold": 0})[1]
                    tag = {"cmd": cmd, "first_arguments": p1, "current_arguments": p2, "edit": how, "first_run_failed_late": first_run}
                    sample = tag
                    counters = {"judged": 0, "unspecified": 0}
                    nv = len(viols)
                    D.judge("C08", cmd, p2, [cells], res, (len(col),), viols, tag, counters, V)
                    for v in viols[nv:]:
                        v["key"] = v["key"].replace("C08:%s:" % cmd, "C08:%s:after-edit:" % cmd)
                    judged += 1
                    k = "edited:%s" % ("ok" if len(viols) == nv else "bad")
                    outcomes[k] = outcomes.get(k, 0) + 1
    finally:
        import shutil
        shutil.rmtree(work, ignore_errors=True)
    return {"evals": max(evals, 1), "nontrivial": evals, "judged": judged, "viols": viols[:30], "outcomes": outcomes, "sample": sample}


def run(case):
    case = tuple(case)
    if case[0] == "edited":
        return _run_edited(case)
    if case[0] == "relation":
        return _relation(case)
    if case[0] == "inverse":
        return _inverse(case)
    if case[0] == "unsigned":
        return _run_unsigned(case)
    if case[0] == "offset":
        return _run_offset(case)
    return _run_cmd(case)
