"""Snapshot of the *working tree* of the repository under test.

Every check imports ``mpilot`` from a scratch copy of ``/repo/mpilot`` (override the repository
root with MPILOT_VERIF_REPO), never from /repo in place: ``yacc.yacc()`` may rewrite
``mpilot/parser/parsetab.py`` next to the parser and library loading executes modules; a check must
not write into /repo.  The copy lives outside /repo and /verif and is deleted at exit of the
process that created it (forked workers inherit sys.path but never delete).
"""
import atexit
import os
import shutil
import sys
import tempfile

REPO = os.environ.get("MPILOT_VERIF_REPO", "/repo")
_STATE = {"dir": None, "pid": None}


def _scratch_base():
    for base in ("/dev/shm", tempfile.gettempdir()):
        if os.path.isdir(base) and os.access(base, os.W_OK):
            return base
    return None


def _cleanup():
    if _STATE["dir"] and _STATE["pid"] == os.getpid():
        shutil.rmtree(_STATE["dir"], ignore_errors=True)
        _STATE["dir"] = None


def _sweep_stale(base):
    """remove scratch copies left behind by checks that were killed (their creating process no longer exists)"""
    try:
        names = os.listdir(base or tempfile.gettempdir())
    except OSError:
        return
    for name in names:
        if not name.startswith("mpverif_"):
            continue
        parts = name.split("_")
        if len(parts) >= 3 and parts[1].isdigit() and not os.path.exists("/proc/%s" % parts[1]):
            shutil.rmtree(os.path.join(base or tempfile.gettempdir(), name), ignore_errors=True)


def take():
    """Copy <repo>/mpilot (+tests) into a scratch dir, put it first on sys.path, return the dir."""
    if _STATE["dir"]:
        return _STATE["dir"]
    src = os.path.join(REPO, "mpilot")
    if not os.path.isdir(src):
        raise RuntimeError("no mpilot package under %s" % REPO)
    base = _scratch_base()
    _sweep_stale(base)
    d = tempfile.mkdtemp(prefix="mpverif_%d_" % os.getpid(), dir=base)
    ignore = shutil.ignore_patterns("__pycache__", "*.pyc")
    shutil.copytree(src, os.path.join(d, "mpilot"), ignore=ignore)
    tests = os.path.join(REPO, "tests")
    if os.path.isdir(tests):
        shutil.copytree(tests, os.path.join(d, "tests"), ignore=ignore)
    _STATE["dir"] = d
    _STATE["pid"] = os.getpid()
    atexit.register(_cleanup)
    # drop any already-imported mpilot (there should be none) and make the snapshot win
    for name in [m for m in sys.modules if m == "mpilot" or m.startswith("mpilot.")]:
        del sys.modules[name]
    sys.path.insert(0, d)
    sys.dont_write_bytecode = True
    import mpilot  # noqa

    got = os.path.dirname(os.path.abspath(mpilot.__file__))
    if got != os.path.join(d, "mpilot"):
        raise RuntimeError("mpilot imported from %s, not from the snapshot %s" % (got, d))
    return d


def scratch_dir(prefix="mpwork_"):
    """A scratch working directory next to the snapshot (deleted together with it)."""
    base = take()
    return tempfile.mkdtemp(prefix=prefix, dir=base)


def remove_path(path):
    """remove a file OR a directory tree that a run under test left behind (never raises)"""
    try:
        if os.path.isdir(path) and not os.path.islink(path):
            shutil.rmtree(path, ignore_errors=True)
        else:
            os.remove(path)
    except OSError:
        pass
