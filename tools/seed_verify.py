#!/usr/bin/env python3
"""tools/seed_verify.py <seed id> <property> <dir with patch.diff, demo.py[, NOTES.md]> [--checks C01,C09|all] [--tier quick]

Confirms a seeded property-breaking change and records which checks detect it:
  1. fresh scratch copy of /repo HEAD (git archive), `git apply` of the patch must succeed;
  2. the pinned test suite must pass on the patched copy;
  3. the demonstration must FAIL on the patched copy and PASS on an unpatched copy;
  4. the requested checks run against the patched copy (MPILOT_VERIF_REPO, scratch evidence/violation dirs);
  5. /verif/seeded/<id>/{patch.diff, demo.py, NOTES.md, meta.json} are written.  Scratch copies are removed.
"""
import json
import os
import shutil
import subprocess
import sys
import tempfile
import time

ROOT = "/verif"


def sh(cmd, cwd=None, env=None, timeout=3600):
    r = subprocess.run(cmd, shell=True, cwd=cwd, env=env, capture_output=True, text=True, timeout=timeout)
    return r.returncode, r.stdout + r.stderr


def fresh_copy():
    d = tempfile.mkdtemp(prefix="seed_", dir="/dev/shm")
    rc, out = sh("git -C /repo archive HEAD | tar -x -C %s" % d)
    if rc:
        raise SystemExit("archive failed: " + out)
    sh("git init -q && git add -A && git -c user.email=x@x -c user.name=x commit -qm base", cwd=d)
    return d


def main():
    a = sys.argv[1:]
    sid, prop, src = a[0], a[1], a[2]
    checks = "all"
    tier = "quick"
    if "--checks" in a:
        checks = a[a.index("--checks") + 1]
    if "--tier" in a:
        tier = a[a.index("--tier") + 1]
    out_dir = os.path.join(ROOT, "seeded", sid)
    os.makedirs(out_dir, exist_ok=True)
    for f in ("patch.diff", "demo.py", "NOTES.md"):
        p = os.path.join(src, f)
        if os.path.exists(p) and os.path.abspath(p) != os.path.abspath(os.path.join(out_dir, f)):
            shutil.copy(p, os.path.join(out_dir, f))
    meta = {"id": sid, "breaks_property": prop, "repo_commit": sh("git -C /repo rev-parse --short HEAD")[1].strip(), "ran": []}
    patched, clean = fresh_copy(), fresh_copy()
    try:
        rc, out = sh("git apply %s" % os.path.join(out_dir, "patch.diff"), cwd=patched)
        meta["patch_applies"] = rc == 0
        if rc:
            print("PATCH DOES NOT APPLY:\n" + out)
            meta["error"] = out[-400:]
            return finish(meta, out_dir, 3)
        rc, out = sh("/venv/bin/python -m pytest -q -p no:cacheprovider --timeout=900 2>&1 | tail -3", cwd=patched)
        meta["tests_with_patch"] = out.strip().splitlines()[-1] if out.strip() else ""
        meta["ran"].append("cd <patched copy> && /venv/bin/python -m pytest -q -p no:cacheprovider  -> " + meta["tests_with_patch"])
        tests_ok = " passed" in meta["tests_with_patch"] and "failed" not in meta["tests_with_patch"] and "error" not in meta["tests_with_patch"]
        meta["tests_pass_with_patch"] = tests_ok
        for d, label in ((patched, "patched"), (clean, "clean")):
            os.makedirs(os.path.join(d, "SEED"), exist_ok=True)
            shutil.copy(os.path.join(out_dir, "demo.py"), os.path.join(d, "SEED", "demo.py"))
            rc, out = sh("/venv/bin/python SEED/demo.py", cwd=d, env=dict(os.environ, PYTHONDONTWRITEBYTECODE="1", PYTHONPATH=d), timeout=600)
            meta["demo_%s_rc" % label] = rc
            meta["demo_%s_tail" % label] = out.strip()[-300:]
            meta["ran"].append("cd <%s copy> && /venv/bin/python SEED/demo.py -> exit %d" % (label, rc))
        meta["demo_fails_with_patch"] = meta["demo_patched_rc"] != 0
        meta["demo_passes_without_patch"] = meta["demo_clean_rc"] == 0
        confirmed = tests_ok and meta["demo_fails_with_patch"] and meta["demo_passes_without_patch"]
        meta["confirmed"] = confirmed
        print("seed %s (%s): patch applies, tests: %s, demo patched rc=%d, demo clean rc=%d -> %s" % (
            sid, prop, meta["tests_with_patch"], meta["demo_patched_rc"], meta["demo_clean_rc"], "CONFIRMED" if confirmed else "NOT CONFIRMED"))
        # checks
        if checks == "all":
            ids = [c["property_id"] for c in json.load(open(os.path.join(ROOT, "MANIFEST.json")))["checks"]]
            ids = [prop] + [i for i in ids if i != prop]
        elif checks == "none":
            ids = []
        else:
            ids = checks.split(",")
        detected = {}
        ev = tempfile.mkdtemp(prefix="seedev_", dir="/dev/shm")
        env = dict(os.environ, MPILOT_VERIF_REPO=patched, VERIF_EVIDENCE_DIR=ev + "/evidence", VERIF_VIOLATION_DIR=ev + "/violations")
        for cid in ids:
            t0 = time.time()
            try:
                rc, out = sh("./check %s --tier %s" % (cid, tier), cwd=ROOT, env=env, timeout=3000)
            except subprocess.TimeoutExpired:
                rc, out = 124, "TIMEOUT"
            keys = [l.strip()[4:].split(": ")[0] for l in out.splitlines() if l.strip().startswith("key=")]
            detected[cid] = {"rc": rc, "violation_keys": keys[:12], "seconds": round(time.time() - t0, 1)}
            print("  check %s rc=%d %d keys %s" % (cid, rc, len(keys), keys[:3]))
            meta["ran"].append("MPILOT_VERIF_REPO=<patched copy> ./check %s --tier %s -> exit %d" % (cid, tier, rc))
        shutil.rmtree(ev, ignore_errors=True)
        meta["checks"] = detected
        meta["detected_by"] = [c for c, d in detected.items() if d["rc"] == 1]
        meta["detected_by_own_check"] = detected.get(prop, {}).get("rc") == 1
        return finish(meta, out_dir, 0 if confirmed else 1)
    finally:
        shutil.rmtree(patched, ignore_errors=True)
        shutil.rmtree(clean, ignore_errors=True)


def finish(meta, out_dir, rc):
    old = {}
    mp = os.path.join(out_dir, "meta.json")
    if os.path.exists(mp):
        old = json.load(open(mp))
    for k in ("needs_to_manifest", "idea", "source", "history"):
        if k in old and k not in meta:
            meta[k] = old[k]
    with open(mp, "w") as f:
        json.dump(meta, f, indent=1, sort_keys=True)
    return rc


if __name__ == "__main__":
    sys.exit(main())
