#!/bin/sh
# tools/run_all.sh [quick|thorough] : run every claimed check against /repo, print one line each
T=${1:-quick}
cd /verif
for p in $(python3 -c "import json;print(' '.join(c['property_id'] for c in json.load(open('MANIFEST.json'))['checks']))"); do
  s=$(date +%s); out=$(./check $p --tier $T 2>&1); rc=$?; e=$(date +%s)
  echo "$p rc=$rc $((e-s))s $(echo "$out" | grep -c '^VIOLATION') violations $(echo "$out" | grep -c '^KNOWN-FINDING') known"
  [ $rc -ne 0 ] && echo "$out" | tail -5 | cut -c1-300
done
