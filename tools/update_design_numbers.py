#!/usr/bin/env python3
"""Rewrites the measured column (evals / distinct / outcomes / s) of the section-4a table of DESIGN.md from evidence/*.json (quick tier)."""
import json, re, os
p = "/verif/DESIGN.md"
lines = open(p).read().split("\n")
def fmt(n):
    return "{:,}".format(n).replace(",", " ")
out = []
for ln in lines:
    m = re.match(r"^\| (C\d\d) \| ([a-z_]+) \| (.*) \| ([^|]*) \| ([^|]*) \|$", ln)
    if m and os.path.exists("/verif/evidence/%s.json" % m.group(1)):
        d = json.load(open("/verif/evidence/%s.json" % m.group(1)))
        if d["tier"] == "quick":
            c = d["coverage"]
            meas = "%s / %s / %d / %d" % (fmt(c["evaluations"]), fmt(c["distinct_nontrivial"]), c["distinct_observed_outcomes"], round(d["wall_s"]))
            if d["level"] == "model_checking":
                meas += " (%s states, %s transitions)" % (fmt(c["states"]), fmt(c["transitions"]))
            ln = "| %s | %s | %s | %s | %s |" % (m.group(1), d["level"], m.group(3), meas, m.group(5))
    out.append(ln)
open(p, "w").write("\n".join(out))
print("updated")
