#!/bin/sh
# tools/mut.sh <patch> [--tests] -- <check args...> : apply patch to a scratch copy of /repo, optionally run the
# pinned test suite there, run ./check against the copy, delete the copy.
P="$1"; shift
T=0; if [ "$1" = "--tests" ]; then T=1; shift; fi
[ "$1" = "--" ] && shift
D=$(mktemp -d /dev/shm/mut_XXXXXX)
cp -r /repo/mpilot /repo/tests "$D"/ 2>/dev/null
find "$D" -name __pycache__ -prune -exec rm -rf {} +
( cd "$D" && patch -p1 -s < "$P" ) || { echo "PATCH FAILED"; rm -rf "$D"; exit 3; }
if [ $T = 1 ]; then ( cd "$D" && /venv/bin/python -m pytest -q -p no:cacheprovider -x 2>&1 | tail -3 ); fi
MPILOT_VERIF_REPO="$D" VERIF_EVIDENCE_DIR="$D/evidence" VERIF_VIOLATION_DIR="$D/violations" /verif/check "$@"; rc=$?
rm -rf "$D"
exit $rc
