#!/usr/bin/env python3
"""tools/kf.py <property> <key> <status known|fixed> <commit or -> <what...>  : append to known_findings.json"""
import json, sys
p = "/verif/known_findings.json"
d = json.load(open(p))
prop, key, status, commit = sys.argv[1:5]
what = " ".join(sys.argv[5:])
if status == "fixed":
    what = "fixed: property=%s %s %s" % (prop, commit, what)
d["findings"] = [f for f in d["findings"] if not (f["property"] == prop and f["key"] == key)]
e = {"property": prop, "key": key, "status": status, "what": what}
if commit != "-":
    e["commit"] = commit
d["findings"].append(e)
with open(p, "w") as f:
    f.write('{\n "comment": %s,\n "findings": [\n' % json.dumps(d["comment"]))
    f.write(",\n".join("  " + json.dumps(x, sort_keys=True) for x in d["findings"]))
    f.write("\n ]\n}\n")
