#!/bin/sh
# tools/seed_matrix.sh [all] : re-verify every seeded change against the checks (quick tier); writes seeded/<id>/meta.json and seeded/MATRIX.md
# Default: the property's own check + the fifteen checks that take <20 s; the five slowest (C04 C08 C13 C14 C19, 20-60 s each) are only
# run against the changes aimed at them ("-" in the matrix = not run).  With the argument `all` every check is run (about 4.5 min per change).
cd /verif
cheap="C01,C02,C03,C05,C06,C07,C09,C10,C11,C12,C15,C16,C17,C18,C20"
for d in seeded/*/; do
  id=$(basename $d)
  prop=$(python3 -c "import json;print(json.load(open('$d/meta.json'))['breaks_property'])")
  if [ "$1" = "all" ]; then list=all; else
    rest=$(echo ",$cheap," | sed "s/,$prop,/,/; s/^,//; s/,$//")
    list="$prop,$rest"
  fi
  tools/seed_verify.py $id $prop $d --checks $list 2>&1 | grep -v "^  check" | tail -1
done
python3 tools/seed_table.py
