#!/usr/bin/env python3
"""Regenerates /verif/MANIFEST.json from the table below (kept valid at all times)."""
import json, os
ROOT = os.path.dirname(os.path.dirname(os.path.abspath(__file__)))
CLAIMED = json.load(open(os.path.join(ROOT, "tools", "claims.json")))
ALL = [json.loads(l)["id"] for l in open(os.path.join(ROOT, "properties.jsonl"))]
checks = []
for pid in ALL:
    c = CLAIMED.get(pid)
    if not c:
        continue
    checks.append({
        "property_id": pid,
        "quick_cmd": "./check %s --tier quick" % pid,
        "thorough_cmd": "./check %s --tier thorough" % pid,
        "evidence_file": "/verif/evidence/%s.json" % pid,
        "replay_cmd_template": "./check %s --replay {path}" % pid,
        "engine": "mc-explorer",
        "level_claimed": {"category": c["level"], "text": c["text"], "design_ref": c.get("design_ref", "DESIGN.md section 4, " + pid)},
        "level_note": c["note"],
        "technique": c["technique"],
    })
na = [{"property_id": pid, "reason": "check not built yet in this session (planned: bounded exhaustive exploration, see DESIGN.md section 4)"}
      for pid in ALL if pid not in CLAIMED]
m = {
    "version": 1,
    "setup_cmd": "/venv/bin/python -m compileall -q mc >/dev/null; ./check --selftest",
    "hooks": {"guard": "MPILOT_VERIF", "enable": "no source hooks are needed: checks import a scratch snapshot of /repo's working tree and observe through public attributes and verif-side command libraries; ./check exports MPILOT_VERIF=1 for uniformity",
              "baseline_off_cmd": "cd /repo && /venv/bin/python -m pytest -ra -q -p no:cacheprovider --timeout=900 --continue-on-collection-errors",
              "source_commits": [], "add_only": True},
    "engines": [{"name": "mc-explorer", "path": "/verif/mc/core.py", "serves_properties": [c["property_id"] for c in checks],
                 "kind_free_text": "hand-written explicit-state / bounded-exhaustive explorer for Python: sharded product and deviation enumerators, BFS over event histories replayed on fresh real objects, reference models in mc/ref"}],
    "checks": checks,
    "notes": "All checks explore the real implementation (snapshot of /repo working tree). Known findings: /verif/known_findings.json. Seeded breaking changes: /verif/seeded/. See DESIGN.md.",
    "not_applicable": na,
}
json.dump(m, open(os.path.join(ROOT, "MANIFEST.json"), "w"), indent=1)
print("claimed", len(checks), "not claimed", len(na))
