"""tools/prof_cases.py C06 quick : time each case serially-in-parallel and print the slowest"""
import sys, time, importlib, multiprocessing
sys.path.insert(0, '/verif')
from mc import snapshot
snapshot.take()
pid, tier = sys.argv[1], sys.argv[2]
mod = importlib.import_module('mc.checks.%s' % pid.lower())
if hasattr(mod, 'prepare'): mod.prepare(tier)
def f(c):
    t=time.time(); r=mod.run(c); return (time.time()-t, c, r.get('evals',1))
cs = list(mod.cases(tier))
with multiprocessing.get_context('fork').Pool(16) as p:
    res = p.map(f, cs, chunksize=1)
res.sort(key=lambda x: -x[0])
print('total cpu', sum(r[0] for r in res), 'cases', len(res))
for r in res[:12]: print('%.1fs'%r[0], r[1], r[2])
