#!/usr/bin/env python3
"""quick mutant: tools/qm.py [--tests] <relfile> <old> <new> -- <check args>
Copies /repo to scratch, replaces the first occurrence of old by new in relfile, optionally runs the test-suite there,
runs ./check against the copy, removes the copy."""
import os, shutil, subprocess, sys, tempfile
a = sys.argv[1:]
tests = False
if a[0] == "--tests":
    tests = True; a = a[1:]
rel, old, new = a[0], a[1], a[2]
rest = a[4:] if a[3] == "--" else a[3:]
d = tempfile.mkdtemp(prefix="mut_", dir="/dev/shm")
try:
    shutil.copytree("/repo/mpilot", d + "/mpilot", ignore=shutil.ignore_patterns("__pycache__"))
    shutil.copytree("/repo/tests", d + "/tests", ignore=shutil.ignore_patterns("__pycache__"))
    p = os.path.join(d, rel)
    s = open(p).read()
    old = old.encode().decode("unicode_escape"); new = new.encode().decode("unicode_escape")
    if old not in s:
        print("OLD TEXT NOT FOUND"); sys.exit(3)
    open(p, "w").write(s.replace(old, new, 1))
    if tests:
        r = subprocess.run(["/venv/bin/python", "-m", "pytest", "-q", "-p", "no:cacheprovider", "-x"], cwd=d, capture_output=True, text=True)
        print("TESTS:", r.stdout.strip().splitlines()[-1])
    env = dict(os.environ, MPILOT_VERIF_REPO=d, VERIF_EVIDENCE_DIR=d + "/evidence", VERIF_VIOLATION_DIR=d + "/violations")
    r = subprocess.run(["/verif/check"] + rest, env=env, capture_output=True, text=True)
    out = r.stdout.splitlines()
    print("\n".join(l[:260] for l in out[:14])); print("exit", r.returncode, r.stderr[-500:])
finally:
    shutil.rmtree(d, ignore_errors=True)
